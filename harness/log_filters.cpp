// correspondence harness for the log routing / filter code (C14)
//
// Drives the real celma::log::Logging singleton, celma::log::detail::Log, the Filters base of logs
// and destinations, the duplicate policies, discard_by_level() and the LOG_LEVEL macro, in-process.
// A recording destination (ILogDest subclass) stores the (level, class) of what it is handed.
//
// operations (one per line, one result line each):
//   case <id>                                 reset: Logging::reset(), duplicate policy ignore
//   log new <name>                            findCreateLog            -> ok id=<n> | throw <class>
//   dest add <log> <dest>                     addDestination           -> ok | ok nolog
//   dest remove <log> <dest>                  removeDestination        -> ok | ok nolog
//   filter <log>[/<dest>] max|min|level <n>   Filters::maxLevel/...    -> ok | ok nolog | throw <class>
//   filter <log>[/<dest>] classes <hex>       Filters::classes( text)  -> ok | ok nolog | throw <class>
//   policy ignore|replace|exception           Filters::setDuplicatePolicy -> ok
//   send <idset> <level> <class>              Logging::log( ids, msg)  -> ok <log>/<dest>=<n> ...
//   sendname <name> <level> <class>           Logging::log( name, msg) -> same
//   macro <idset> <level> <class>             LOG_LEVEL( ids, level) << class << "x" -> same | throw
//   macroname <name> <level> <class>          LOG_LEVEL( "name", level) << class << "x" -> same | throw
//   precheck <idset> <level>                  discard_by_level( ids, level) -> ok discard=<bool> | throw
//   precheckname <name> <level>               discard_by_level( name, level)
//   sweep <idset>                             every (level, class) message through Logging::log( ids, msg)
//                                             -> ok <log>/<dest>=<49 digits: deliveries of message level*7+class> ...
//   presweep <idset>                          discard_by_level( ids, l) for every level -> ok <7 chars t|f|E>
//   parse <hex>                               text2logClass( text)      -> ok class=<n>
//   state                                     -> ok next=<id> <log>:<id>[<dest>:<received>,...] ...
#include "common.hpp"

#include <map>
#include <memory>

#include "celma/log/detail/helper_function.hpp"
#include "celma/log/detail/i_log_dest.hpp"
#include "celma/log/detail/log.hpp"
#include "celma/log/detail/log_defs.hpp"
#include "celma/log/detail/log_msg.hpp"
#include "celma/log/filter/detail/duplicate_policy.hpp"
#include "celma/log/filter/filters.hpp"
#include "celma/log/log_macros.hpp"
#include "celma/log/logging.hpp"

using celma::log::LogClass;
using celma::log::LogLevel;
using celma::log::Logging;
using celma::log::detail::LogMsg;
using celma::log::filter::Filters;
using celma::log::filter::detail::DuplicatePolicy;

namespace {

struct Received {
   int level;
   int cls;
};

/// what a destination has been handed; owned by the harness so that it outlives the destination
struct Record {
   std::vector<Received> msgs;
   size_t seen = 0;   // number of messages already reported
};

class Recorder final : public celma::log::detail::ILogDest {
public:
   explicit Recorder(std::shared_ptr<Record> r) : mRec(std::move(r)) {}

private:
   void message(const LogMsg& msg) override {
      mRec->msgs.push_back({static_cast<int>(msg.getLevel()), static_cast<int>(msg.getClass())});
   }
   std::shared_ptr<Record> mRec;
};

struct DestInfo {
   std::string name;
   std::shared_ptr<Record> rec;
};
struct LogInfo {
   std::string name;
   celma::log::id_t id;
   std::vector<DestInfo> dests;   // in the order of Log::mLoggers
};
std::vector<LogInfo> gLogs;   // in the order of Logging::mLogs

LogInfo* findLog(const std::string& name) {
   for (auto& l : gLogs)
      if (l.name == name) return &l;
   return nullptr;
}

bool num(const std::string& s, unsigned long& out) {
   if (s.empty()) return false;
   char* end = nullptr;
   out = std::strtoul(s.c_str(), &end, 10);
   return *end == '\0';
}

/// per destination the number of messages received since the last report; '!!' when a destination
/// got something else than the message that was sent
std::string deliveries(int level, int cls) {
   std::string out = "ok";
   bool corrupt = false;
   for (auto& l : gLogs)
      for (auto& d : l.dests) {
         size_t n = d.rec->msgs.size() - d.rec->seen;
         for (size_t i = d.rec->seen; i < d.rec->msgs.size(); ++i)
            if (d.rec->msgs[i].level != level || d.rec->msgs[i].cls != cls) corrupt = true;
         d.rec->seen = d.rec->msgs.size();
         out += " " + l.name + "/" + d.name + "=" + std::to_string(n);
      }
   if (corrupt) return "!! destination received a message that was not sent: " + out;
   return out;
}

void resync() {
   for (auto& l : gLogs)
      for (auto& d : l.dests) d.rec->seen = d.rec->msgs.size();
}

// the LOG_LEVEL macro takes the enumerator as a token
#define VH_MACRO_CASE(n, name) \
   case n: { LOG_LEVEL(ids, name) << cls << "x"; } break

void macroSend(celma::log::id_t ids, int level, LogClass cls) {
   switch (level) {
      VH_MACRO_CASE(0, undefined);
      VH_MACRO_CASE(1, fatal);
      VH_MACRO_CASE(2, error);
      VH_MACRO_CASE(3, warning);
      VH_MACRO_CASE(4, info);
      VH_MACRO_CASE(5, debug);
      VH_MACRO_CASE(6, fullDebug);
      default: throw std::logic_error("harness: level");
   }
}

// the same with a log NAME as first argument of the macro
#define VH_MACRO_NAME_CASE(n, lname) \
   case n: { LOG_LEVEL(name, lname) << cls << "x"; } break

void macroSendName(const std::string& name, int level, LogClass cls) {
   switch (level) {
      VH_MACRO_NAME_CASE(0, undefined);
      VH_MACRO_NAME_CASE(1, fatal);
      VH_MACRO_NAME_CASE(2, error);
      VH_MACRO_NAME_CASE(3, warning);
      VH_MACRO_NAME_CASE(4, info);
      VH_MACRO_NAME_CASE(5, debug);
      VH_MACRO_NAME_CASE(6, fullDebug);
      default: throw std::logic_error("harness: level");
   }
}

std::string step(const std::vector<std::string>& t, const std::string&) {
   if (t.size() == 2 && t[0] == "case") {
      Logging::reset();
      gLogs.clear();
      Filters::setDuplicatePolicy(DuplicatePolicy::ignore);
      return "ok";
   }
   if (t.size() == 3 && t[0] == "log" && t[1] == "new") {
      celma::log::id_t id = 0;
      std::string r = vh::guarded([&] { id = Logging::instance().findCreateLog(t[2]); });
      if (!r.empty()) return r;
      if (findLog(t[2]) == nullptr) gLogs.push_back({t[2], id, {}});
      return "ok id=" + std::to_string(id);
   }
   if (t.size() == 4 && t[0] == "dest" && (t[1] == "add" || t[1] == "remove")) {
      auto* log = Logging::instance().getLog(t[2]);
      LogInfo* li = findLog(t[2]);
      if (log == nullptr || li == nullptr) return (log == nullptr && li == nullptr) ? "ok nolog" : "!! log table differs";
      if (t[1] == "add") {
         auto rec = std::make_shared<Record>();
         log->addDestination(t[3], new Recorder(rec));
         li->dests.push_back({t[3], rec});
      } else {
         log->removeDestination(t[3]);
         for (auto it = li->dests.begin(); it != li->dests.end(); ++it)
            if (it->name == t[3]) { li->dests.erase(it); break; }
      }
      return "ok";
   }
   if (t.size() == 4 && t[0] == "filter") {
      std::string logName = t[1], destName;
      auto slash = t[1].find('/');
      if (slash != std::string::npos) { logName = t[1].substr(0, slash); destName = t[1].substr(slash + 1); }
      auto* log = Logging::instance().getLog(logName);
      if (log == nullptr) return "ok nolog";
      Filters* f = log;
      std::string r = vh::guarded([&] {
         if (slash != std::string::npos) f = log->getDestination(destName);
      });
      if (!r.empty()) return r;
      unsigned long n = 0;
      std::string text;
      if (t[2] == "classes") {
         if (!vh::hexDecodeStr(t[3], text)) return "bad-op";
      } else if (!num(t[3], n) || n > 6)
         return "bad-op";
      const LogLevel ll = static_cast<LogLevel>(n);
      if (t[2] == "max") r = vh::guarded([&] { f->maxLevel(ll); });
      else if (t[2] == "min") r = vh::guarded([&] { f->minLevel(ll); });
      else if (t[2] == "level") r = vh::guarded([&] { f->level(ll); });
      else if (t[2] == "classes") r = vh::guarded([&] { f->classes(text); });
      else return "bad-op";
      return r.empty() ? "ok" : r;
   }
   if (t.size() == 2 && t[0] == "policy") {
      DuplicatePolicy p;
      if (t[1] == "ignore") p = DuplicatePolicy::ignore;
      else if (t[1] == "replace") p = DuplicatePolicy::replace;
      else if (t[1] == "exception") p = DuplicatePolicy::exception;
      else return "bad-op";
      std::string r = vh::guarded([&] { Filters::setDuplicatePolicy(p); });
      return r.empty() ? "ok" : r;
   }
   if (t.size() == 4 && (t[0] == "send" || t[0] == "sendname" || t[0] == "macro" || t[0] == "macroname")) {
      unsigned long ids = 0, lv = 0, cl = 0;
      if (!num(t[2], lv) || !num(t[3], cl) || lv > 6 || cl > 6) return "bad-op";
      if (t[0] != "sendname" && t[0] != "macroname" && (!num(t[1], ids) || ids > 0xffffffffUL)) return "bad-op";
      LogMsg msg(LOG_MSG_OBJECT_INIT);
      msg.setLevel(static_cast<LogLevel>(lv));
      msg.setClass(static_cast<LogClass>(cl));
      msg.setText("x");
      resync();
      std::string r;
      if (t[0] == "send") r = vh::guarded([&] { Logging::instance().log(static_cast<celma::log::id_t>(ids), msg); });
      else if (t[0] == "sendname") r = vh::guarded([&] { Logging::instance().log(t[1], msg); });
      else if (t[0] == "macroname") r = vh::guarded([&] { macroSendName(t[1], static_cast<int>(lv), static_cast<LogClass>(cl)); });
      else r = vh::guarded([&] { macroSend(static_cast<celma::log::id_t>(ids), static_cast<int>(lv), static_cast<LogClass>(cl)); });
      if (!r.empty()) {
         // an exception must not have delivered anything
         std::string d = deliveries(static_cast<int>(lv), static_cast<int>(cl));
         if (d.find("=1") != std::string::npos || d.compare(0, 2, "!!") == 0) return "!! delivered and threw: " + r + " " + d;
         return r;
      }
      return deliveries(static_cast<int>(lv), static_cast<int>(cl));
   }
   if (t.size() == 3 && (t[0] == "precheck" || t[0] == "precheckname")) {
      unsigned long ids = 0, lv = 0;
      if (!num(t[2], lv) || lv > 6) return "bad-op";
      if (t[0] == "precheck" && (!num(t[1], ids) || ids > 0xffffffffUL)) return "bad-op";
      bool discard = false;
      std::string r = vh::guarded([&] {
         discard = (t[0] == "precheck")
                      ? celma::log::detail::discard_by_level(static_cast<celma::log::id_t>(ids), static_cast<LogLevel>(lv))
                      : celma::log::detail::discard_by_level(t[1], static_cast<LogLevel>(lv));
      });
      if (!r.empty()) return r;
      return std::string("ok discard=") + (discard ? "true" : "false");
   }
   if (t.size() == 2 && t[0] == "sweep") {
      unsigned long ids = 0;
      if (!num(t[1], ids) || ids > 0xffffffffUL) return "bad-op";
      resync();
      std::vector<std::string> digits;
      bool corrupt = false;
      for (int lv = 0; lv <= 6; ++lv)
         for (int cl = 0; cl <= 6; ++cl) {
            LogMsg msg(LOG_MSG_OBJECT_INIT);
            msg.setLevel(static_cast<LogLevel>(lv));
            msg.setClass(static_cast<LogClass>(cl));
            msg.setText("x");
            std::string r = vh::guarded([&] { Logging::instance().log(static_cast<celma::log::id_t>(ids), msg); });
            if (!r.empty()) return r;
            size_t k = 0;
            for (auto& l : gLogs)
               for (auto& d : l.dests) {
                  if (digits.size() <= k) digits.emplace_back();
                  size_t n = d.rec->msgs.size() - d.rec->seen;
                  for (size_t i = d.rec->seen; i < d.rec->msgs.size(); ++i)
                     if (d.rec->msgs[i].level != lv || d.rec->msgs[i].cls != cl) corrupt = true;
                  d.rec->seen = d.rec->msgs.size();
                  digits[k++] += static_cast<char>('0' + (n > 9 ? 9 : n));
               }
         }
      if (corrupt) return "!! destination received a message that was not sent";
      std::string out = "ok";
      size_t k = 0;
      for (auto& l : gLogs)
         for (auto& d : l.dests) out += " " + l.name + "/" + d.name + "=" + digits[k++];
      return out;
   }
   if (t.size() == 2 && t[0] == "presweep") {
      unsigned long ids = 0;
      if (!num(t[1], ids) || ids > 0xffffffffUL) return "bad-op";
      std::string out = "ok ";
      for (int lv = 0; lv <= 6; ++lv) {
         bool discard = false;
         std::string r = vh::guarded([&] {
            discard = celma::log::detail::discard_by_level(static_cast<celma::log::id_t>(ids), static_cast<LogLevel>(lv));
         });
         out += !r.empty() ? 'E' : discard ? 't' : 'f';
      }
      return out;
   }
   if (t.size() == 2 && t[0] == "parse") {
      std::string text;
      if (!vh::hexDecodeStr(t[1], text)) return "bad-op";
      return "ok class=" + std::to_string(static_cast<int>(celma::log::detail::text2logClass(text.c_str())));
   }
   if (t.size() == 1 && t[0] == "state") {
      // next id: the id a new log would get is not observable without creating one; report the table
      std::string out = "ok";
      for (auto& l : gLogs) {
         out += " " + l.name + ":" + std::to_string(l.id) + "[";
         bool first = true;
         for (auto& d : l.dests) {
            out += (first ? "" : ",") + d.name + ":" + std::to_string(d.rec->msgs.size());
            first = false;
         }
         out += "]";
      }
      return out;
   }
   return "bad-op";
}

}  // namespace

int main() { return vh::run(step); }
