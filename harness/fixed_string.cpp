// correspondence harness for celma::common::FixedString<L> (C10, C11)
//
// Every case works on three objects placed by placement-new in the middle of heap arenas that are
// pre-filled with a guard pattern: `s` (capacity L, the object under test), `t` (capacity L, source
// for the same-type overloads and swap partner) and `u` (capacity SU = 9 after `new <L>`, or the
// capacity named by `new <L> <S>` for the pairs instantiated at the end of this file; source for the
// `template< size_t S>` overloads, S > 255 / > 65535 gives FixedString arguments longer than the length
// type of `s` can count).  After every operation the guards of all three objects are
// checked (C10 oracle: `!! guard ...`), the object must be well-formed (`!! wf ...`), and the
// result is printed next to what the same operation does on a real std::string holding the same
// text, cut off at the capacity (`e.*` fields, C11 oracle; compared by the plugin's judge when the
// model says the arguments are inside the documented domain).
//
// Every operation line is executed TWICE, in lock-step: first on the arena objects, then on MIRROR objects `s`, `t`, `u`
// holding the same state, each of which is the only occupant of a heap block of exactly sizeof( FixedString< N>) bytes
// (`Exact`): AddressSanitizer's red zone starts at the first byte behind (and ends at the last byte before) the object,
// so an over-READ of the object by a const operation (memcmp/memcpy/strchr/indexing reaching over `mLength` and out of
// the object) aborts the run, which the guard bytes of the arena cannot notice (they only see writes, and behind the
// arena object lies readable arena memory).  The two result lines (result, length, content, strlen, hash of all L+1
// buffer bytes, well-formedness) must be identical: `!! mirror ...` otherwise.  Argument buffers are exact-size heap
// blocks as well, freshly made for each of the two executions: C strings / pointer+count sources (`new char[ n + 1]`),
// copy() destinations (exactly the number of characters std::string would copy, `exactBuf`), std::string arguments
// (heap object; up to 15 characters libstdc++ keeps the text inside the object, the unused rest of that 16 byte buffer is
// poisoned by hand, see `SBuf`), FixedString arguments (`t`, `u` of the mirror).
//
// Source arguments (`s:`/`c:` tokens) are hex, optionally in segments `<hex>+<hex pattern>x<count>` (decodeSrc).
//
// The file is compiled once per capacity (-DFS_PART=k), see tools/comp_fixedstring.py.
#include "common.hpp"
#include <algorithm>
#include <cstdarg>
#include <cstdint>
#include <cwchar>
#include <memory>
#include <new>
#include <sstream>
#include "celma/common/fixed_string.hpp"

#if defined(__SANITIZE_ADDRESS__)
#include <sanitizer/asan_interface.h>
#define FS_POISON(p, n) ASAN_POISON_MEMORY_REGION((p), (n))
#define FS_UNPOISON(p, n) ASAN_UNPOISON_MEMORY_REGION((p), (n))
#else
#define FS_POISON(p, n) ((void)(p), (void)(n))
#define FS_UNPOISON(p, n) ((void)(p), (void)(n))
#endif

using celma::common::FixedString;
static const size_t NPOS = std::string::npos;

struct IBox {
   virtual ~IBox() = default;
   virtual std::string exec(const std::vector<std::string>& t) = 0;
};

// one factory per translation unit; `su` = capacity of the `u` source object (`new <L>` means su = 9)
IBox* make_box_part0(size_t L, size_t su);
IBox* make_box_part1(size_t L, size_t su);
IBox* make_box_part2(size_t L, size_t su);
IBox* make_box_part3(size_t L, size_t su);
IBox* make_box_part4(size_t L, size_t su);
IBox* make_box_part5(size_t L, size_t su);
IBox* make_box_part6(size_t L, size_t su);
IBox* make_box_part7(size_t L, size_t su);
IBox* make_box_part8(size_t L, size_t su);
IBox* make_box_part9(size_t L, size_t su);
IBox* make_box_part10(size_t L, size_t su);
IBox* make_box_part11(size_t L, size_t su);
IBox* make_box_part12(size_t L, size_t su);
IBox* make_box_part13(size_t L, size_t su);
IBox* make_box_part14(size_t L, size_t su);
IBox* make_box_part15(size_t L, size_t su);
IBox* make_box_part16(size_t L, size_t su);
IBox* make_box_part17(size_t L, size_t su);
IBox* make_box_part18(size_t L, size_t su);

#ifndef FS_PART
#define FS_PART 0
#define FS_ALL 1
#endif

namespace {

constexpr size_t GUARD = 4096;
constexpr size_t SU_DEFAULT = 9;

inline unsigned char pat(size_t i) { return static_cast<unsigned char>(0x80u | ((i * 7u + 3u) & 0x7fu)); }

template <class T> struct Arena {
   unsigned char* mem;
   unsigned char* ref;      ///< the pattern of the left and of the right guard area (for the fast comparison)
   T* obj;
   Arena() {
      mem = new unsigned char[GUARD + sizeof(T) + GUARD];
      ref = new unsigned char[2 * GUARD];
      for (size_t i = 0; i < GUARD + sizeof(T) + GUARD; ++i) mem[i] = pat(i);
      for (size_t i = 0; i < GUARD; ++i) { ref[i] = pat(i); ref[GUARD + i] = pat(GUARD + sizeof(T) + i); }
      obj = new (mem + GUARD) T();
   }
   ~Arena() { delete[] mem; delete[] ref; }
   Arena(const Arena&) = delete;
   /// re-creates the object by running `f(place)`
   template <class F> void rebuild(F f) {
      for (size_t i = GUARD; i < GUARD + sizeof(T); ++i) mem[i] = pat(i);
      obj = f(static_cast<void*>(mem + GUARD));
   }
   /// returns "" or the description of the first damaged guard byte (and repairs the guards)
   std::string check(const char* name) {
      // fast path: both guard areas still equal the pattern (memcmp against the pattern kept in `ref`)
      if (std::memcmp(mem, ref, GUARD) == 0 && std::memcmp(mem + GUARD + sizeof(T), ref + GUARD, GUARD) == 0) return "";
      std::string r;
      for (size_t i = 0; i < GUARD; ++i)
         if (mem[i] != pat(i)) {
            if (r.empty()) r = std::string(name) + "-" + std::to_string(GUARD - i);
            mem[i] = pat(i);
         }
      for (size_t i = GUARD + sizeof(T); i < 2 * GUARD + sizeof(T); ++i)
         if (mem[i] != pat(i)) {
            if (r.empty()) r = std::string(name) + "+" + std::to_string(i - GUARD) + "(sizeof=" + std::to_string(sizeof(T)) + ")";
            mem[i] = pat(i);
         }
      return r;
   }
};

/// the mirror: the object is the only occupant of a heap block of exactly sizeof( T) bytes, so that the sanitizer's red
/// zones begin at the byte before and at the byte behind the object (ASan poisons the unused part of the last 8 byte
/// granule too: "0 bytes to the right of 6-byte region" for a FixedString< 4>).  mLength is the last member and its
/// alignment is the alignment of the class, so there is no tail padding: the last byte of mLength is the last byte of
/// the block.  A fresh block for every re-construction.
template <class T> struct Exact {
   T* obj;
   Exact() : obj(new (::operator new(sizeof(T))) T()) {}
   ~Exact() { drop(); }
   Exact(const Exact&) = delete;
   void drop() { obj->~T(); ::operator delete(static_cast<void*>(obj)); obj = nullptr; }
   template <class F> void rebuild(F f) {
      void* fresh = ::operator new(sizeof(T));     // before the old one is released: a different address
      T* n = f(fresh);
      drop();
      obj = n;
   }
};

/// [p, p + n) is exactly a heap block (n = 0: p points behind a one byte block): any access outside is reported
struct ExactBuf {
   std::unique_ptr<char[]> mem;
   char* p;
   explicit ExactBuf(size_t n, int fill) : mem(new char[n ? n : 1]), p(mem.get() + (n ? 0 : 1)) { std::memset(mem.get(), fill, n ? n : 1); }
};

/// std::string argument on the heap.  More than 15 characters: libstdc++ allocates exactly size() + 1 bytes for a string
/// constructed from a value (checked: capacity() == size()).  Up to 15 characters the text lives in the 16 byte buffer
/// inside the object, where an over-read of up to 15 - size() bytes would stay inside the (32 byte) object: that rest is
/// poisoned by hand for the life time of the argument (the buffer ends on an 8 byte boundary, so the partial granule can
/// be expressed in the shadow memory).
struct SBuf {
   std::unique_ptr<std::string> str;
   const char* pz = nullptr;
   size_t nz = 0;
   explicit SBuf(const std::string& v) : str(new std::string(v.data(), v.size())) {
      const char* d = str->data();
      const char* o = reinterpret_cast<const char*>(str.get());
      if (d >= o && d < o + sizeof(std::string)) {      // short string: text inside the object
         size_t room = static_cast<size_t>(o + sizeof(std::string) - d);
         if (room > str->size() + 1 && (reinterpret_cast<uintptr_t>(d + room) & 7u) == 0) {
            pz = d + str->size() + 1;
            nz = room - str->size() - 1;
            FS_POISON(pz, nz);
         }
      }
   }
   ~SBuf() { if (nz) FS_UNPOISON(pz, nz); }
   SBuf(const SBuf&) = delete;
};

inline uint64_t fnv(const unsigned char* p, size_t n) {
   uint64_t h = 1469598103934665603ull;
   for (size_t i = 0; i < n; ++i) { h ^= p[i]; h *= 1099511628211ull; }
   return h;
}
inline std::string hex64(uint64_t v) {
   char b[20];
   std::snprintf(b, sizeof b, "%016llx", static_cast<unsigned long long>(v));
   return b;
}
/// content encoding: hex up to 48 bytes, otherwise `#<len>:<fnv>`
inline std::string enc(const unsigned char* p, size_t n) {
   if (n <= 48) return vh::hexOut(p, n);
   return "#" + std::to_string(n) + ":" + hex64(fnv(p, n));
}
inline std::string enc(const std::string& s) { return enc(reinterpret_cast<const unsigned char*>(s.data()), s.size()); }
inline std::string rn(size_t v) { return v == NPOS ? "npos" : std::to_string(v); }
inline std::string rb(bool b) { return b ? "1" : "0"; }
inline std::string rs(int v) { return v < 0 ? "-1" : v > 0 ? "1" : "0"; }
inline std::string rc(char c) { unsigned char u = static_cast<unsigned char>(c); return vh::hexOut(&u, 1); }

struct BadOp {};

/// the initializer lists the protocol can name (`il:<k>`)
inline std::initializer_list<char> ilist(size_t k) {
   static const std::initializer_list<char> l0 = {};
   static const std::initializer_list<char> l1 = {'x'};
   static const std::initializer_list<char> l2 = {'x', 'y'};
   static const std::initializer_list<char> l3 = {'p', 'q', 'r'};
   static const std::initializer_list<char> l5 = {'v', 'w', 'x', 'y', 'z'};
   static const std::initializer_list<char> l9 = {'1', '2', '3', '4', '5', '6', '7', '8', '9'};
   switch (k) {
   case 0: return l0;
   case 1: return l1;
   case 2: return l2;
   case 3: return l3;
   case 5: return l5;
   case 9: return l9;
   default: throw BadOp();
   }
}

/// source argument payload: `-` (empty) or segments joined by `+`; a segment is `<hex bytes>` or
/// `<hex pattern>x<count>` = the pattern repeated cyclically up to exactly <count> bytes (count <= 2^20).
/// Lets 300- or 70000-byte arguments be written in a few characters; Drivers/FixedString.lean decodes the same.
inline bool decodeSrc(const std::string& s, std::string& out) {
   out.clear();
   if (s == "-") return true;
   size_t i = 0;
   for (;;) {
      size_t j = s.find('+', i);
      std::string seg = s.substr(i, j == std::string::npos ? std::string::npos : j - i);
      size_t x = seg.find('x');
      std::string pat;
      if (x == std::string::npos) {
         if (seg.empty() || seg == "-" || !vh::hexDecodeStr(seg, pat)) return false;
         out += pat;
      } else {
         std::string h = seg.substr(0, x), n = seg.substr(x + 1);
         if (h.empty() || h == "-" || !vh::hexDecodeStr(h, pat) || pat.empty()) return false;
         if (n.empty() || n.size() > 7) return false;
         size_t cnt = 0;
         for (char c : n) { if (c < '0' || c > '9') return false; cnt = cnt * 10 + static_cast<size_t>(c - '0'); }
         if (cnt > (1u << 20)) return false;
         out.reserve(out.size() + cnt);
         for (size_t k = 0; k < cnt; ++k) out.push_back(pat[k % pat.size()]);
      }
      if (j == std::string::npos) break;
      i = j + 1;
   }
   return true;
}

template <size_t L, size_t SU = SU_DEFAULT> struct Box : public IBox {
   using FS = FixedString<L>;
   using FU = FixedString<SU>;
   using CI = typename FS::const_iterator;
   using IT = typename FS::iterator;
   Arena<FS> as, at;       // the objects between guard bytes (write detection)
   Arena<FU> au;
   Exact<FS> ms, mt;       // the mirror objects in exact-size heap blocks (read and write detection by ASan)
   Exact<FU> mu;
   bool mirror = false;    // which of the two worlds the operation currently runs on
   FS* s = as.obj;
   FS* t = at.obj;
   FU* u = au.obj;

   void world(bool m) {
      mirror = m;
      s = m ? ms.obj : as.obj;
      t = m ? mt.obj : at.obj;
      u = m ? mu.obj : au.obj;
   }
   /// re-creates `s` by running `f(place)` (constructor operations)
   template <class F> void rebuildS(F f) {
      if (mirror) { ms.rebuild(f); s = ms.obj; } else { as.rebuild(f); s = as.obj; }
   }

   // per-operation scratch: exact-size heap copies of the source arguments
   std::vector<std::unique_ptr<char[]>> cbufs;
   std::vector<std::unique_ptr<SBuf>> sbufs;
   const std::vector<std::string>* A = nullptr;
   /// "no NUL character was stored": an argument accessor sets `nulArg` when the argument of the current line can carry a NUL
   /// into the string (a source with a NUL byte, the character 00, a pointer+count source whose terminator is readable);
   /// `cleanBefore` = all three objects had strlen == length before the operation.  Both together decide whether the last
   /// clause of C10 (length == strlen) is demanded after the operation, see wf().
   mutable bool nulArg = false;
   bool cleanBefore = false;
   std::vector<std::unique_ptr<wchar_t[]>> wbufs;     ///< wide-string arguments (exact-size heap blocks)
   /// Self-aliasing sources.  `aliasMode`: the line had the prefix `alias` -- for the duration of the operation the argument
   /// object `t` IS `s` (the pointer `t` is set to `s`), so `s->insert( i, *t, j, c)` is `s->insert( i, *s, j, c)` and
   /// iterators "of t" are iterators of `s`.  `selfSrc`: a `const char*` argument was given as `self:<k>` = `s->c_str() + k`,
   /// a pointer into the own buffer.  In both cases the std::string twin runs BEFORE the implementation (on its copy of the
   /// pre-state, reading the source while it still holds the pre-state): std::string specifies an aliasing source as a
   /// copy of the pre-state.  Guards, well-formedness and the exact-size mirror work as for every other operation (in the
   /// mirror world the aliasing source is the mirror object, so an over-read through the aliasing pointer is seen by ASan).
   bool aliasMode = false;
   mutable bool selfSrc = false;

   size_t curLen() const { return std::min(static_cast<size_t>(s->length()), L); }

   size_t num(const std::string& tk) const {
      auto tail = [&](size_t base, const std::string& rest) -> size_t {
         if (rest.empty()) return base;
         size_t k = std::stoull(rest.substr(1));
         if (rest[0] == '+') return base + k;
         if (rest[0] == '-') return base >= k ? base - k : 0;
         throw BadOp();
      };
      if (tk.compare(0, 4, "npos") == 0) return tail(NPOS, tk.substr(4));
      if (tk.compare(0, 4, "@len") == 0) return tail(curLen(), tk.substr(4));
      if (tk.compare(0, 4, "@cap") == 0) return tail(L, tk.substr(4));
      if (tk.compare(0, 4, "@rem") == 0) return tail(L - curLen(), tk.substr(4));
      if (tk.empty() || tk[0] < '0' || tk[0] > '9') throw BadOp();
      return std::stoull(tk);
   }
   size_t N(size_t i) const { return num(A->at(i)); }
   char C(size_t i) const {
      std::vector<unsigned char> v;
      if (!vh::hexDecode(A->at(i), v) || v.size() != 1) throw BadOp();
      if (v[0] == 0) nulArg = true;
      return static_cast<char>(v[0]);
   }
   bool isSelf(size_t i) const { return A->at(i).compare(0, 5, "self:") == 0; }
   std::string rawsrc(size_t i, const char* pfx) const {
      const std::string& tk = A->at(i);
      if (isSelf(i) && pfx[0] == 'c') {      // `self:<k>`: the bytes of `s` from position k up to its terminator (pre-state)
         size_t k = num(tk.substr(5));
         if (k > curLen()) throw BadOp();
         std::string own(s->c_str() + k, curLen() - k);
         if (own.find('\0') != std::string::npos) nulArg = true;
         selfSrc = true;
         return own;
      }
      if (tk.compare(0, 2, pfx) != 0) throw BadOp();
      std::string out;
      if (!decodeSrc(tk.substr(2), out)) throw BadOp();
      if (out.find('\0') != std::string::npos) nulArg = true;
      return out;
   }
   /// C string argument: the bytes given plus a terminating NUL, allocated at exact size
   const char* P(size_t i) {
      std::string raw = rawsrc(i, "c:");
      if (isSelf(i)) return s->c_str() + (curLen() - raw.size());      // the pointer into the own buffer itself
      std::unique_ptr<char[]> p(new char[raw.size() + 1]);
      std::memcpy(p.get(), raw.data(), raw.size());
      p[raw.size()] = '\0';
      cbufs.push_back(std::move(p));
      return cbufs.back().get();
   }
   size_t PL(size_t i) const { return rawsrc(i, "c:").size(); }          ///< bytes before the added NUL
   std::string PS(size_t i) const { return std::string(rawsrc(i, "c:").c_str()); }   ///< as a C string
   std::string PR(size_t i) const { nulArg = true; return rawsrc(i, "c:"); }   ///< pointer+count: the added NUL is readable
   /// wide-string argument `-` or code points in hex joined by `.` (0 and values >= 2^31 refused, as in the driver):
   /// the characters plus a terminating L'\0' in a heap block of exactly that size
   const wchar_t* WS(size_t i, size_t* n = nullptr) {
      const std::string& tk = A->at(i);
      std::vector<wchar_t> w;
      if (tk != "-") {
         size_t b = 0;
         for (;;) {
            size_t e = tk.find('.', b);
            std::string h = tk.substr(b, e == std::string::npos ? std::string::npos : e - b);
            if (h.empty() || h.size() > 8) throw BadOp();
            unsigned long v = 0;
            for (char ch : h) {
               if (ch >= '0' && ch <= '9') v = v * 16 + static_cast<unsigned long>(ch - '0');
               else if (ch >= 'a' && ch <= 'f') v = v * 16 + static_cast<unsigned long>(ch - 'a' + 10);
               else throw BadOp();
            }
            if (v == 0 || v >= 0x80000000ul) throw BadOp();
            w.push_back(static_cast<wchar_t>(v));
            if (e == std::string::npos) break;
            b = e + 1;
         }
      }
      std::unique_ptr<wchar_t[]> p(new wchar_t[w.size() + 1]);
      for (size_t k = 0; k < w.size(); ++k) p[k] = w[k];
      p[w.size()] = L'\0';
      if (n) *n = w.size();
      wbufs.push_back(std::move(p));
      return wbufs.back().get();
   }
   /// what the C library itself makes of format and arguments (the reference of the std::string twin): the formatted
   /// text, or the empty string when the formatter fails (vsnprintf < 0)
   static std::string formatted(const char* fmt, ...) {
      va_list ap;
      va_start(ap, fmt);
      va_list ap2;
      va_copy(ap2, ap);
      int n = std::vsnprintf(nullptr, 0, fmt, ap);
      va_end(ap);
      std::string out;
      if (n >= 0) {
         std::vector<char> b(static_cast<size_t>(n) + 1);
         if (std::vsnprintf(b.data(), b.size(), fmt, ap2) == n) out.assign(b.data(), static_cast<size_t>(n));
      }
      va_end(ap2);
      return out;
   }
   std::string& SS(size_t i) {
      sbufs.emplace_back(new SBuf(rawsrc(i, "s:")));
      return *sbufs.back()->str;
   }
   template <class F> std::string withF(size_t i, F f) {
      if (A->at(i) == "t") return f(*t);      // alias mode: t == s
      if (aliasMode) throw BadOp();
      if (A->at(i) == "u") return f(*u);
      throw BadOp();
   }
   const FS& T(size_t i) const { if (A->at(i) != "t") throw BadOp(); return *t; }
   bool isEnd(size_t i) const { return A->at(i) == "end"; }
   CI ci(size_t i) const { return isEnd(i) ? s->cend() : CI(s, N(i)); }
   /// std::string position of an iterator token
   size_t ip(size_t i) const { return isEnd(i) ? curLen() : std::min(N(i), curLen()); }
   size_t tn(size_t i) const { return isEnd(i) ? t->length() : std::min(num(A->at(i)), static_cast<size_t>(t->length())); }
   std::string itres(const IT& it) { return it == s->end() ? "end" : std::to_string(it - s->begin()); }
   static std::string itexp(size_t pos, const std::string& ref) { return pos >= ref.size() ? "end" : std::to_string(pos); }
   static size_t clampc(size_t c) { return std::min(c, L + 1); }

   using RIT = typename FS::reverse_iterator;
   /// applies the moves of token `mi` (`-` or `i`, `d`, `a<n>`, `s<n>` joined by commas) to an iterator
   template <class It> void moves(It& it, size_t mi) const {
      const std::string& m = A->at(mi);
      if (m == "-") return;
      size_t i = 0;
      for (;;) {
         size_t j = m.find(',', i);
         std::string w = m.substr(i, j == std::string::npos ? std::string::npos : j - i);
         if (w == "i") ++it;
         else if (w == "d") --it;
         else if (w.size() > 1 && w[0] == 'a') it += num(w.substr(1));
         else if (w.size() > 1 && w[0] == 's') it -= num(w.substr(1));
         else throw BadOp();
         if (j == std::string::npos) break;
         i = j + 1;
      }
   }
   IT walkF(size_t pi, size_t mi) const { IT it = isEnd(pi) ? s->end() : IT(s, N(pi)); moves(it, mi); return it; }
   RIT walkR(size_t pi, size_t mi) const { RIT it = isEnd(pi) ? s->rend() : RIT(s, N(pi)); moves(it, mi); return it; }
   std::string idxF(const IT& it) const { return it == s->end() ? "end" : std::to_string(it - s->begin()); }
   std::string idxR(const RIT& it) const { return it == s->rend() ? "end" : std::to_string((s->rend() - it) - 1); }

   template <class Obj> static std::string state(const Obj& o, size_t cap, const std::string& pfx = "") {
      size_t len = o.length();
      size_t shown = std::min(len, cap);
      return pfx + "len=" + std::to_string(len) + " " + pfx + "buf=" +
             enc(reinterpret_cast<const unsigned char*>(o.c_str()), shown);
   }
   /// `strict`: no NUL character was stored (the objects had strlen == length before the operation and no argument of
   /// the operation carries a NUL), so the length must equal the C-string length of the buffer.  (Before seeded defect
   /// C10-4 this test was `memchr( c_str(), 0, len) == nullptr && strlen != len`, which can never be true once
   /// c_str()[ len] == 0 has been checked: a length that is too LARGE with a NUL inside went unnoticed.)
   template <class Obj> static std::string wf(const Obj& o, size_t cap, const char* name, bool strict) {
      size_t len = o.length();
      if (len > cap) return std::string("wf ") + name + " length " + std::to_string(len) + " > capacity";
      if (o.c_str()[len] != '\0') return std::string("wf ") + name + " no NUL at length";
      if (strict) {
         size_t sl = std::strlen(o.c_str());
         if (sl != len)
            return std::string("wf ") + name + " strlen differs: length " + std::to_string(len) + ", strlen " +
                   std::to_string(sl) + ", no NUL character was stored";
      }
      return "";
   }
   template <class Obj> static bool clean(const Obj& o, size_t cap) {
      size_t len = o.length();
      return len <= cap && o.c_str()[len] == '\0' && std::strlen(o.c_str()) == len;
   }

   std::string finish(const std::string& pre, const std::string& ar, const std::string& er, const std::string& eref,
                      bool withT) {
      std::string bad;
      if (!mirror) {       // the mirror has no guard bytes: the sanitizer watches its surroundings
         bad = as.check("s");
         if (bad.empty()) bad = at.check("t"); else at.check("t");
         if (bad.empty()) bad = au.check("u"); else au.check("u");
         if (!bad.empty()) bad = "guard " + bad;
      }
      const bool strict = cleanBefore && !nulArg;
      if (bad.empty()) bad = wf(*s, L, "s", strict);
      if (bad.empty()) bad = wf(*t, L, "t", strict);
      if (bad.empty()) bad = wf(*u, SU, "u", strict);
      size_t len = curLen();
      const unsigned char* raw = reinterpret_cast<const unsigned char*>(s->c_str());
      std::string out;
      if (!bad.empty()) out = "!! " + bad + " ; ";
      bool thrown = ar.compare(0, 6, "throw:") == 0;
      out += thrown ? "throw " + ar.substr(6) : "ok";
      out += " r=" + ar + " " + state(*s, L) + " sl=" + std::to_string(std::strlen(s->c_str())) +
             " all=" + hex64(fnv(raw, L + 1));
      (void)len;
      if (withT) out += " " + state(*t, L, "t.");
      if (mirror) return out;       // compared with the arena's line up to here; the std::string twin ran there
      std::string cut = eref.substr(0, std::min(eref.size(), L));
      out += " e.r=" + er + " e.len=" + std::to_string(cut.size()) + " e.buf=" + enc(cut);
      (void)pre;
      return out;
   }

   /// runs the implementation side (`impl`) and the std::string twin (`twin`, on a copy of the content)
   std::string run(const std::function<std::string()>& impl, const std::function<std::string(std::string&)>& twin,
                   bool withT = false) {
      std::string pre(s->c_str(), curLen());
      std::string ar, er;
      std::string ref = pre;
      auto runTwin = [&] {
         std::string err2 = vh::guarded([&] { er = twin(ref); });
         if (!err2.empty()) { er = "throw:" + err2.substr(6); ref = pre; }
      };
      const bool twinFirst = aliasMode || selfSrc;      // the source is (part of) `s`: the twin must read the pre-state
      if (twinFirst && !mirror) runTwin();
      std::string err = vh::guarded([&] { ar = impl(); });
      if (!twinFirst && !mirror) runTwin();
      if (!err.empty()) ar = "throw:" + err.substr(6);
      if (mirror) return finish(pre, ar, "", "", withT);
      return finish(pre, ar, er, ref, withT);
   }

   std::string exec(const std::vector<std::string>& line) override {
      // `alias <operation>`: the FixedString / iterator-pair argument `t` of the operation is the object `s` itself
      static const char* const aliasOps[] = {"assign_f", "set_f", "insert_if", "insert_ific", "append_f", "append_fpc",
         "append_fp", "add_f", "append_itit", "rep_ccf", "rep_ccfcc", "rep_ccfc", "rep_itit_itit"};
      std::vector<std::string> stripped;
      aliasMode = !line.empty() && line[0] == "alias";
      if (aliasMode) {
         stripped.assign(line.begin() + 1, line.end());
         bool known = false;
         for (const char* n : aliasOps) if (!stripped.empty() && stripped[0] == n) known = true;
         if (!known) { aliasMode = false; return "bad-op"; }
      }
      const std::vector<std::string>& a = aliasMode ? stripped : line;
      A = &a;
      std::string r1 = execIn(false, a);
      if (r1.compare(0, 6, "bad-op") == 0) return r1;
      // the same line on the mirror objects, with argument buffers of its own
      std::string r2 = execIn(true, a);
      cbufs.clear();
      sbufs.clear();
      wbufs.clear();
      world(false);
      if (r1.compare(0, 2, "!!") == 0) return r1;      // the arena's own oracle failed: report that
      size_t cut = r1.find(" e.r=");
      if (r1.compare(0, cut, r2) != 0)
         return "!! mirror (object in an exact-size heap block) differs: [" + r2 + "] ; " + r1;
      return r1;
   }

   std::string execIn(bool m, const std::vector<std::string>& a) {
      cbufs.clear();
      sbufs.clear();
      wbufs.clear();
      world(m);
      if (aliasMode) t = s;      // undone by the next world()
      nulArg = false;
      selfSrc = false;
      cleanBefore = clean(*s, L) && clean(*t, L) && clean(*u, SU);
      try {
         return dispatch(a);
      } catch (const BadOp&) {
         return "bad-op";
      } catch (const std::invalid_argument&) {
         return "bad-op";
      } catch (const std::out_of_range&) {
         return "bad-op";
      }
   }

#define OP(NAME, NARGS) if (op == NAME && a.size() == (NARGS) + 1)
#define IMPL [&]() -> std::string
#define TWIN [&](std::string & ref) -> std::string
#define RET_ return std::string("-")

   std::string dispatch(const std::vector<std::string>& a) {
      const std::string& op = a[0];
      // ----- set-up of the source objects ---------------------------------------------------
      OP("tset", 1) { t->assign(SS(1)); return "ok " + state(*t, L); }
      OP("uset", 1) { u->assign(SS(1)); return "ok " + state(*u, SU); }

      // ----- constructors -------------------------------------------------------------------
      OP("ctor_p", 1) { const char* p = P(1); std::string ps = PS(1);
         return run(IMPL { rebuildS([&](void* m) { return new (m) FS(p); }); RET_; }, TWIN { ref = ps; RET_; }); }
      OP("ctor_s", 1) { const std::string& x = SS(1);
         return run(IMPL { rebuildS([&](void* m) { return new (m) FS(x); }); RET_; }, TWIN { ref = x; RET_; }); }
      OP("ctor_f", 1) {
         if (a[1] == "t") { FS cp(*t);   // the arena is rebuilt, so copy first
            return run(IMPL { rebuildS([&](void* m) { return new (m) FS(cp); }); RET_; }, TWIN { ref = cp.str(); RET_; }); }
         return run(IMPL { rebuildS([&](void* m) { return new (m) FS(*u); }); RET_; }, TWIN { ref = u->str(); RET_; }); }
      OP("ctor_move", 1) { T(1);
         return run(IMPL { rebuildS([&](void* m) { return new (m) FS(std::move(*t)); }); RET_; }, TWIN { ref = t->str(); RET_; }); }
      OP("ctor_def", 0) {
         return run(IMPL { rebuildS([&](void* m) { return new (m) FS(); }); RET_; }, TWIN { ref.clear(); RET_; }); }

      // ----- assignment ---------------------------------------------------------------------
      OP("assign_p", 1) { const char* p = P(1); std::string ps = PS(1);
         return run(IMPL { s->assign(p); RET_; }, TWIN { ref.assign(ps.c_str()); RET_; }); }
      OP("assign_s", 1) { const std::string& x = SS(1);
         return run(IMPL { s->assign(x); RET_; }, TWIN { ref.assign(x); RET_; }); }
      OP("assign_f", 1) return withF(1, [&](const auto& F) {
         return run(IMPL { s->assign(F); RET_; }, TWIN { ref.assign(F.str()); RET_; }); });
      OP("set_p", 1) { const char* p = P(1); std::string ps = PS(1);
         return run(IMPL { *s = p; RET_; }, TWIN { ref = ps.c_str(); RET_; }); }
      OP("set_s", 1) { const std::string& x = SS(1);
         return run(IMPL { *s = x; RET_; }, TWIN { ref = x; RET_; }); }
      OP("set_f", 1) return withF(1, [&](const auto& F) {
         return run(IMPL { *s = F; RET_; }, TWIN { ref = F.str(); RET_; }); });
      OP("clear", 0) return run(IMPL { s->clear(); RET_; }, TWIN { ref.clear(); RET_; });

      // ----- element access and trivial observers ------------------------------------------------
      OP("str", 0) return run(IMPL { return enc(s->str()); }, TWIN { return enc(ref); });
      OP("c_str", 0) return run(IMPL { return enc(std::string(s->c_str())); }, TWIN { return enc(std::string(ref.c_str())); });
      OP("data", 0) return run(IMPL { return enc(std::string(const_cast<const FS*>(s)->data())); }, TWIN { return enc(std::string(ref.data())); });
      OP("length", 0) return run(IMPL { return rn(s->length()); }, TWIN { return rn(ref.length()); });
      OP("empty", 0) return run(IMPL { return rb(s->empty()); }, TWIN { return rb(ref.empty()); });
      OP("at", 1) { size_t i = N(1);
         return run(IMPL { return rc(s->at(i)); }, TWIN { return rc(ref.at(i)); }); }
      OP("cat", 1) { size_t i = N(1);
         return run(IMPL { return rc(const_cast<const FS*>(s)->at(i)); }, TWIN { return rc(ref.at(i)); }); }
      OP("idx", 1) { size_t i = N(1); if (i > L) throw BadOp();   // documented: undefined beyond the buffer
         return run(IMPL { return rc((*s)[i]); }, TWIN { return rc(i < ref.size() ? ref[i] : '\0'); }); }
      OP("front", 0) return run(IMPL { return rc(s->front()); }, TWIN { return rc(ref.empty() ? '\0' : ref.front()); });
      OP("back", 0) return run(IMPL { return rc(s->back()); }, TWIN { return rc(ref.empty() ? '\0' : ref.back()); });
      OP("stream", 0) return run(IMPL { std::ostringstream os; os << *s; return enc(os.str()); },
                                 TWIN { std::ostringstream os; os << ref; return enc(os.str()); });   // the real operator<< of std::string (all size() characters)

      // ----- iteration ------------------------------------------------------------------------
      OP("iter_fwd", 0) return run(IMPL { std::string o; size_t n = 0;
            for (auto it = s->begin(); it != s->end() && n < L + 4; ++it, ++n) o.push_back(*it);
            return enc(o); }, TWIN { return enc(std::string(ref.begin(), ref.end())); });
      OP("iter_cfwd", 0) return run(IMPL { std::string o; size_t n = 0;
            for (auto it = s->cbegin(); it != s->cend() && n < L + 4; it++, ++n) o.push_back(*it);
            return enc(o); }, TWIN { return enc(std::string(ref.cbegin(), ref.cend())); });
      OP("iter_rev", 0) return run(IMPL { std::string o; size_t n = 0;
            for (auto it = s->rbegin(); it != s->rend() && n < L + 4; ++it, ++n) o.push_back(*it);
            return enc(o); }, TWIN { return enc(std::string(ref.rbegin(), ref.rend())); });
      OP("iter_crev", 0) return run(IMPL { std::string o; size_t n = 0;
            for (auto it = s->crbegin(); it != s->crend() && n < L + 4; it++, ++n) o.push_back(*it);
            return enc(o); }, TWIN { return enc(std::string(ref.crbegin(), ref.crend())); });
      OP("it_deref", 1) { size_t k = N(1);
         return run(IMPL { return rc(*CI(s, k)); }, TWIN { return rc(ref.at(k)); }); }
      OP("it_dist", 0) return run(IMPL { return rn(s->cend() - s->cbegin()); }, TWIN { return rn(ref.cend() - ref.cbegin()); });
      // iterator arithmetic beyond ++ (no std::string twin: positions outside the string become end(), where a
      // std::string iterator is undefined): `it_walk f|r <start> <moves>` prints the final index, `it_walkd` dereferences,
      // `it_walki ... <k>` applies operator[], `it_rel f|r <op> <a> <b>` the relational operators
      if ((op == "it_walk" || op == "it_walkd") && a.size() == 4) {
         bool deref = op == "it_walkd";
         if (a[1] == "f") return run(IMPL { auto it = walkF(2, 3); return deref ? rc(*it) : idxF(it); }, TWIN { RET_; });
         if (a[1] == "r") return run(IMPL { auto it = walkR(2, 3); return deref ? rc(*it) : idxR(it); }, TWIN { RET_; });
         throw BadOp();
      }
      OP("it_walki", 4) { size_t k = N(4);
         if (a[1] == "f") { auto it = walkF(2, 3); size_t mi = (it == s->end()) ? NPOS : static_cast<size_t>(it - s->begin());
            if (mi + k > L) throw BadOp();          // wrapping sum, as in the iterator; beyond the buffer: undefined
            return run(IMPL { return rc(it[k]); }, TWIN { RET_; }); }
         if (a[1] == "r") { auto it = walkR(2, 3); size_t mi = (it == s->rend()) ? NPOS : static_cast<size_t>(s->rend() - it) - 1;
            if (k <= mi && mi - k > L) throw BadOp();
            return run(IMPL { return rc(it[k]); }, TWIN { RET_; }); }
         throw BadOp(); }
      OP("it_rel", 4) { size_t r = N(2);
         auto rel = [&](const auto& x, const auto& y) -> bool {
            switch (r) { case 0: return x < y; case 1: return x <= y; case 2: return x > y; case 3: return x >= y;
                         case 4: return x == y; default: return x != y; } };
         if (a[1] == "f") { IT x = isEnd(3) ? s->end() : IT(s, N(3)), y = isEnd(4) ? s->end() : IT(s, N(4));
            return run(IMPL { return rb(rel(x, y)); }, TWIN { RET_; }); }
         if (a[1] == "r") { RIT x = isEnd(3) ? s->rend() : RIT(s, N(3)), y = isEnd(4) ? s->rend() : RIT(s, N(4));
            return run(IMPL { return rb(rel(x, y)); }, TWIN { RET_; }); }
         throw BadOp(); }

      // ----- insert ---------------------------------------------------------------------------
      OP("insert_icc", 3) { size_t i = N(1), c = N(2); char ch = C(3);
         return run(IMPL { s->insert(i, c, ch); RET_; }, TWIN { ref.insert(i, clampc(c), ch); RET_; }); }
      OP("insert_ipc", 3) { size_t i = N(1); const char* p = P(2); size_t c = N(3); std::string pr = PR(2);
         if (c > pr.size() + 1) throw BadOp();      // [p, p+c) must be readable (same contract as std::string)
         pr.push_back('\0');
         return run(IMPL { s->insert(i, p, c); RET_; }, TWIN { ref.insert(i, pr.data(), c); RET_; }); }
      OP("insert_ip", 2) { size_t i = N(1); const char* p = P(2); std::string ps = PS(2);
         return run(IMPL { s->insert(i, p); RET_; }, TWIN { ref.insert(i, ps.c_str()); RET_; }); }
      OP("insert_is", 2) { size_t i = N(1); const std::string& x = SS(2);
         return run(IMPL { s->insert(i, x); RET_; }, TWIN { ref.insert(i, x); RET_; }); }
      OP("insert_isic", 4) { size_t i = N(1); const std::string& x = SS(2); size_t j = N(3), c = N(4);
         return run(IMPL { s->insert(i, x, j, c); RET_; }, TWIN { ref.insert(i, x, j, c); RET_; }); }
      OP("insert_if", 2) { size_t i = N(1); return withF(2, [&](const auto& F) {
         return run(IMPL { s->insert(i, F); RET_; }, TWIN { ref.insert(i, F.str()); RET_; }); }); }
      OP("insert_ific", 4) { size_t i = N(1), j = N(3), c = N(4); return withF(2, [&](const auto& F) {
         return run(IMPL { s->insert(i, F, j, c); RET_; }, TWIN { ref.insert(i, F.str(), j, c); RET_; }); }); }
      OP("insert_itc", 2) { CI p = ci(1); size_t q = ip(1); char ch = C(2);
         return run(IMPL { return itres(s->insert(p, ch)); },
                    TWIN { ref.insert(ref.begin() + q, ch); return std::string("*"); }); }
      OP("insert_itcc", 3) { CI p = ci(1); size_t q = ip(1); size_t c = N(2); char ch = C(3);
         return run(IMPL { return itres(s->insert(p, c, ch)); },
                    TWIN { ref.insert(ref.begin() + q, clampc(c), ch); return std::string("*"); }); }
      OP("insert_itil", 2) { CI p = ci(1); size_t q = ip(1); if (a[2].compare(0, 3, "il:") != 0) throw BadOp();
         auto il = ilist(std::stoull(a[2].substr(3)));
         return run(IMPL { return itres(s->insert(p, il)); },
                    TWIN { ref.insert(ref.begin() + q, il); return std::string("*"); }); }

      // ----- erase / push / pop -----------------------------------------------------------------
      OP("erase", 2) { size_t i = N(1), c = N(2);
         return run(IMPL { s->erase(i, c); RET_; }, TWIN { ref.erase(i, c); RET_; }); }
      OP("erase_i", 1) { size_t i = N(1);
         return run(IMPL { s->erase(i); RET_; }, TWIN { ref.erase(i); RET_; }); }
      OP("erase_0", 0) return run(IMPL { s->erase(); RET_; }, TWIN { ref.erase(); RET_; });
      OP("erase_it", 1) { CI p = ci(1); size_t q = ip(1);
         return run(IMPL { return itres(s->erase(p)); },
                    TWIN { if (q >= ref.size()) throw std::out_of_range("end");
                           ref.erase(ref.begin() + q); return std::string("*"); }); }
      OP("erase_itit", 2) { CI p = ci(1), q = ci(2); size_t x = ip(1), y = ip(2);
         return run(IMPL { return itres(s->erase(p, q)); },
                    TWIN { if (x > y) throw std::out_of_range("range");
                           ref.erase(ref.begin() + x, ref.begin() + y); return std::string("*"); }); }
      OP("push_back", 1) { char ch = C(1);
         return run(IMPL { s->push_back(ch); RET_; }, TWIN { ref.push_back(ch); RET_; }); }
      OP("pop_back", 0) return run(IMPL { s->pop_back(); RET_; }, TWIN { if (ref.empty()) throw std::out_of_range("empty"); ref.pop_back(); RET_; });

      // ----- append -------------------------------------------------------------------------------
      OP("append_cc", 2) { size_t c = N(1); char ch = C(2);
         return run(IMPL { s->append(c, ch); RET_; }, TWIN { ref.append(clampc(c), ch); RET_; }); }
      OP("append_s", 1) { const std::string& x = SS(1);
         return run(IMPL { s->append(x); RET_; }, TWIN { ref.append(x); RET_; }); }
      OP("append_f", 1) return withF(1, [&](const auto& F) {
         return run(IMPL { s->append(F); RET_; }, TWIN { ref.append(F.str()); RET_; }); });
      OP("append_spc", 3) { const std::string& x = SS(1); size_t p = N(2), c = N(3);
         return run(IMPL { s->append(x, p, c); RET_; }, TWIN { ref.append(x, p, c); RET_; }); }
      OP("append_sp", 2) { const std::string& x = SS(1); size_t p = N(2);
         return run(IMPL { s->append(x, p); RET_; }, TWIN { ref.append(x, p, NPOS); RET_; }); }
      OP("append_fpc", 3) { size_t p = N(2), c = N(3); return withF(1, [&](const auto& F) {
         return run(IMPL { s->append(F, p, c); RET_; }, TWIN { ref.append(F.str(), p, c); RET_; }); }); }
      OP("append_fp", 2) { size_t p = N(2); return withF(1, [&](const auto& F) {
         return run(IMPL { s->append(F, p); RET_; }, TWIN { ref.append(F.str(), p, NPOS); RET_; }); }); }
      OP("append_pc", 2) { const char* p = P(1); size_t c = N(2); std::string pr = PR(1); pr.push_back('\0');
         // twin = textbook std::string::append( p, c): the c bytes at p, NULs included (c limited to the allocation,
         // beyond it std::string is undefined).  The code stops at the terminator: outside C11's domain for
         // c > strlen( p) (theorem C11_deviation_count_beyond_terminator), compared with the model there.
         return run(IMPL { s->append(p, c); RET_; }, TWIN { ref.append(pr.data(), std::min(c, pr.size())); RET_; }); }
      OP("append_p", 1) { const char* p = P(1); std::string ps = PS(1);
         return run(IMPL { s->append(p); RET_; }, TWIN { ref.append(ps.c_str()); RET_; }); }
      OP("append_itit", 2) { size_t x = tn(1), y = tn(2);
         typename FS::const_iterator f = isEnd(1) ? t->cend() : CI(t, N(1)), l = isEnd(2) ? t->cend() : CI(t, N(2));
         if (x > y) throw BadOp();     // [first, last) must be a range
         std::string ts = t->str();
         return run(IMPL { s->append(f, l); RET_; }, TWIN { ref.append(ts.begin() + x, ts.begin() + y); RET_; }); }
      OP("add_f", 1) return withF(1, [&](const auto& F) {
         return run(IMPL { *s += F; RET_; }, TWIN { ref += F.str(); RET_; }); });
      OP("add_s", 1) { const std::string& x = SS(1);
         return run(IMPL { *s += x; RET_; }, TWIN { ref += x; RET_; }); }
      OP("add_p", 1) { const char* p = P(1); std::string ps = PS(1);
         return run(IMPL { *s += p; RET_; }, TWIN { ref += ps.c_str(); RET_; }); }
      OP("add_c", 1) { char ch = C(1);
         return run(IMPL { *s += ch; RET_; }, TWIN { ref += ch; RET_; }); }
      OP("sprintf", 1) { const char* p = P(1); std::string ps = PS(1);
         return run(IMPL { s->sprintf("%s", p); RET_; }, TWIN { ref = ps; RET_; }); }
      OP("sprintf2", 2) { const char* p = P(1); std::string ps = PS(1); unsigned long v = N(2);
         return run(IMPL { s->sprintf("%s/%lu", p, v); RET_; }, TWIN { ref = ps + "/" + std::to_string(v); RET_; }); }
      // formats with a wide-character conversion, ordinary conversions before and after it.  The process runs in the "C"
      // locale (nothing in the harness or in the library calls setlocale / std::locale::global), where wcrtomb() fails with
      // EILSEQ for every wide character above 0x7f: vsnprintf() then returns -1 after the output of the directives before
      // the failing one.  kind = ls: "%s%ls%lu%s", lsp<prec>: "<%s>%.*ls=%lu;%s" (a precision that ends before the bad
      // character makes the call succeed), lc: "%s%lc%lu%s".  Twin: what the C library itself formats, "" on failure.
      OP("sprintf_w", 5) { const char* p = P(1); const std::string& kind = a[2]; size_t wn = 0; const wchar_t* w = WS(3, &wn);
         unsigned long v = N(4); const char* q = P(5);
         if (kind == "ls")
            return run(IMPL { s->sprintf("%s%ls%lu%s", p, w, v, q); RET_; },
                       TWIN { ref = formatted("%s%ls%lu%s", p, w, v, q); RET_; });
         if (kind == "lc") { if (wn != 1) throw BadOp(); wint_t wc = static_cast<wint_t>(w[0]);
            return run(IMPL { s->sprintf("%s%lc%lu%s", p, wc, v, q); RET_; },
                       TWIN { ref = formatted("%s%lc%lu%s", p, wc, v, q); RET_; }); }
         if (kind.compare(0, 3, "lsp") == 0 && kind.size() > 3 && kind.size() <= 13) {
            unsigned long long pr = 0;
            for (size_t k = 3; k < kind.size(); ++k) { if (kind[k] < '0' || kind[k] > '9') throw BadOp(); pr = pr * 10 + static_cast<unsigned long long>(kind[k] - '0'); }
            if (pr >= 0x80000000ull) throw BadOp();
            int prec = static_cast<int>(pr);
            return run(IMPL { s->sprintf("<%s>%.*ls=%lu;%s", p, prec, w, v, q); RET_; },
                       TWIN { ref = formatted("<%s>%.*ls=%lu;%s", p, prec, w, v, q); RET_; }); }
         throw BadOp(); }

      // ----- compare ------------------------------------------------------------------------------
      OP("cmp_f", 1) return withF(1, [&](const auto& F) {
         return run(IMPL { return rs(s->compare(F)); }, TWIN { return rs(ref.compare(F.str())); }); });
      OP("cmp_s", 1) { const std::string& x = SS(1);
         return run(IMPL { return rs(s->compare(x)); }, TWIN { return rs(ref.compare(x)); }); }
      OP("cmp_p", 1) { const char* p = P(1); std::string ps = PS(1);
         return run(IMPL { return rs(s->compare(p)); }, TWIN { return rs(ref.compare(ps.c_str())); }); }
      OP("cmp_ccf", 3) { size_t p1 = N(1), c1 = N(2); return withF(3, [&](const auto& F) {
         return run(IMPL { return rs(s->compare(p1, c1, F)); }, TWIN { return rs(ref.compare(p1, c1, F.str())); }); }); }
      OP("cmp_ccs", 3) { size_t p1 = N(1), c1 = N(2); const std::string& x = SS(3);
         return run(IMPL { return rs(s->compare(p1, c1, x)); }, TWIN { return rs(ref.compare(p1, c1, x)); }); }
      OP("cmp_ccp", 3) { size_t p1 = N(1), c1 = N(2); const char* p = P(3); std::string ps = PS(3);
         return run(IMPL { return rs(s->compare(p1, c1, p)); }, TWIN { return rs(ref.compare(p1, c1, ps.c_str())); }); }
      OP("cmp_ccfcc", 5) { size_t p1 = N(1), c1 = N(2), p2 = N(4), c2 = N(5); return withF(3, [&](const auto& F) {
         return run(IMPL { return rs(s->compare(p1, c1, F, p2, c2)); }, TWIN { return rs(ref.compare(p1, c1, F.str(), p2, c2)); }); }); }
      OP("cmp_ccscc", 5) { size_t p1 = N(1), c1 = N(2), p2 = N(4), c2 = N(5); const std::string& x = SS(3);
         return run(IMPL { return rs(s->compare(p1, c1, x, p2, c2)); }, TWIN { return rs(ref.compare(p1, c1, x, p2, c2)); }); }
      OP("cmp_ccpc", 4) { size_t p1 = N(1), c1 = N(2), c2 = N(4); const char* p = P(3); std::string pr = PR(3); pr.push_back('\0');
         // twin = textbook compare( pos, n, p, n2) over the n2 bytes at p; the code clamps count2 to strlen( str)
         return run(IMPL { return rs(s->compare(p1, c1, p, c2)); },
                    TWIN { return rs(ref.compare(p1, c1, pr.data(), std::min(c2, pr.size()))); }); }

      // ----- starts_with / ends_with / contains (std::string has them from C++20 on: emulated) -----
      OP("sw_f", 1) return withF(1, [&](const auto& F) { std::string x = F.str();
         return run(IMPL { return rb(s->starts_with(F)); }, TWIN { return rb(ref.compare(0, x.size(), x) == 0); }); });
      OP("sw_s", 1) { const std::string& x = SS(1);
         return run(IMPL { return rb(s->starts_with(x)); }, TWIN { return rb(ref.compare(0, x.size(), x) == 0); }); }
      OP("sw_p", 1) { const char* p = P(1); std::string x = PS(1);
         return run(IMPL { return rb(s->starts_with(p)); }, TWIN { return rb(ref.compare(0, x.size(), x) == 0); }); }
      OP("sw_c", 1) { char ch = C(1);
         return run(IMPL { return rb(s->starts_with(ch)); }, TWIN { return rb(!ref.empty() && ref.front() == ch); }); }
      OP("ew_f", 1) return withF(1, [&](const auto& F) { std::string x = F.str();
         return run(IMPL { return rb(s->ends_with(F)); },
                    TWIN { return rb(ref.size() >= x.size() && ref.compare(ref.size() - x.size(), NPOS, x) == 0); }); });
      OP("ew_s", 1) { const std::string& x = SS(1);
         return run(IMPL { return rb(s->ends_with(x)); },
                    TWIN { return rb(ref.size() >= x.size() && ref.compare(ref.size() - x.size(), NPOS, x) == 0); }); }
      OP("ew_p", 1) { const char* p = P(1); std::string x = PS(1);
         return run(IMPL { return rb(s->ends_with(p)); },
                    TWIN { return rb(ref.size() >= x.size() && ref.compare(ref.size() - x.size(), NPOS, x) == 0); }); }
      OP("ew_c", 1) { char ch = C(1);
         return run(IMPL { return rb(s->ends_with(ch)); }, TWIN { return rb(!ref.empty() && ref.back() == ch); }); }
      OP("ct_f", 1) return withF(1, [&](const auto& F) { std::string x = F.str();
         return run(IMPL { return rb(s->contains(F)); }, TWIN { return rb(ref.find(x) != NPOS); }); });
      OP("ct_s", 1) { const std::string& x = SS(1);
         return run(IMPL { return rb(s->contains(x)); }, TWIN { return rb(ref.find(x) != NPOS); }); }
      OP("ct_p", 1) { const char* p = P(1); std::string x = PS(1);
         return run(IMPL { return rb(s->contains(p)); }, TWIN { return rb(ref.find(x) != NPOS); }); }
      OP("ct_c", 1) { char ch = C(1);
         return run(IMPL { return rb(s->contains(ch)); }, TWIN { return rb(ref.find(ch) != NPOS); }); }

      // ----- replace --------------------------------------------------------------------------------
      OP("rep_ccf", 3) { size_t p1 = N(1), c1 = N(2); return withF(3, [&](const auto& F) {
         return run(IMPL { s->replace(p1, c1, F); RET_; }, TWIN { ref.replace(p1, c1, F.str()); RET_; }); }); }
      OP("rep_ccs", 3) { size_t p1 = N(1), c1 = N(2); const std::string& x = SS(3);
         return run(IMPL { s->replace(p1, c1, x); RET_; }, TWIN { ref.replace(p1, c1, x); RET_; }); }
      OP("rep_ccfcc", 5) { size_t p1 = N(1), c1 = N(2), p2 = N(4), c2 = N(5); return withF(3, [&](const auto& F) {
         return run(IMPL { s->replace(p1, c1, F, p2, c2); RET_; }, TWIN { ref.replace(p1, c1, F.str(), p2, c2); RET_; }); }); }
      OP("rep_ccfc", 4) { size_t p1 = N(1), c1 = N(2), p2 = N(4); return withF(3, [&](const auto& F) {
         return run(IMPL { s->replace(p1, c1, F, p2); RET_; }, TWIN { ref.replace(p1, c1, F.str(), p2, NPOS); RET_; }); }); }
      OP("rep_ccscc", 5) { size_t p1 = N(1), c1 = N(2), p2 = N(4), c2 = N(5); const std::string& x = SS(3);
         return run(IMPL { s->replace(p1, c1, x, p2, c2); RET_; }, TWIN { ref.replace(p1, c1, x, p2, c2); RET_; }); }
      OP("rep_ccsc", 4) { size_t p1 = N(1), c1 = N(2), p2 = N(4); const std::string& x = SS(3);
         return run(IMPL { s->replace(p1, c1, x, p2); RET_; }, TWIN { ref.replace(p1, c1, x, p2, NPOS); RET_; }); }
      OP("rep_ccp", 3) { size_t p1 = N(1), c1 = N(2); const char* p = P(3); std::string ps = PS(3);
         return run(IMPL { s->replace(p1, c1, p); RET_; }, TWIN { ref.replace(p1, c1, ps.c_str()); RET_; }); }
      OP("rep_ccpc", 4) { size_t p1 = N(1), c1 = N(2), c2 = N(4); const char* p = P(3); std::string pr = PR(3); pr.push_back('\0');
         // twin = textbook replace( pos, n, p, n2) with the n2 bytes at p; the code clamps count2 to strlen( str)
         return run(IMPL { s->replace(p1, c1, p, c2); RET_; },
                    TWIN { ref.replace(p1, c1, pr.data(), std::min(c2, pr.size())); RET_; }); }
      OP("rep_cccc", 4) { size_t p1 = N(1), c1 = N(2), c2 = N(3); char ch = C(4);
         return run(IMPL { s->replace(p1, c1, c2, ch); RET_; }, TWIN { ref.replace(p1, c1, clampc(c2), ch); RET_; }); }
      OP("rep_itit_itit", 4) { CI f = ci(1), l = ci(2); size_t i = ip(1), j = ip(2); size_t x = tn(3), y = tn(4); if (x > y) throw BadOp();
         IT f2 = (a[3] == "end") ? t->end() : IT(t, N(3)), l2 = (a[4] == "end") ? t->end() : IT(t, N(4));
         std::string ts = t->str();
         return run(IMPL { s->replace(f, l, f2, l2); RET_; },
                    TWIN { if (i > j) throw std::out_of_range("range");
                           ref.replace(ref.begin() + i, ref.begin() + j, ts.begin() + x, ts.begin() + y); RET_; }); }
      OP("rep_itit_sit", 5) { CI f = ci(1), l = ci(2); size_t i = ip(1), j = ip(2); size_t x = N(4), y = N(5);
         std::string& src = SS(3);
         if (x > y || y > src.size()) throw BadOp();
         return run(IMPL { s->replace(f, l, src.begin() + x, src.begin() + y); RET_; },
                    TWIN { if (i > j) throw std::out_of_range("range");
                           ref.replace(ref.begin() + i, ref.begin() + j, src.begin() + x, src.begin() + y); RET_; }); }
      OP("rep_itit_pc", 4) { CI f = ci(1), l = ci(2); size_t i = ip(1), j = ip(2); const char* p = P(3); size_t c2 = N(4); std::string pr = PR(3);
         if (c2 > pr.size() + 1) throw BadOp();
         pr.push_back('\0');
         return run(IMPL { s->replace(f, l, p, c2); RET_; },
                    TWIN { if (i > j) throw std::out_of_range("range");
                           ref.replace(ref.begin() + i, ref.begin() + j, pr.data(), c2); RET_; }); }
      OP("rep_itit_p", 3) { CI f = ci(1), l = ci(2); size_t i = ip(1), j = ip(2); const char* p = P(3); std::string ps = PS(3);
         return run(IMPL { s->replace(f, l, p); RET_; },
                    TWIN { if (i > j) throw std::out_of_range("range");
                           ref.replace(ref.begin() + i, ref.begin() + j, ps.c_str()); RET_; }); }
      OP("rep_itit_cc", 4) { CI f = ci(1), l = ci(2); size_t i = ip(1), j = ip(2); size_t c2 = N(3); char ch = C(4);
         return run(IMPL { s->replace(f, l, c2, ch); RET_; },
                    TWIN { if (i > j) throw std::out_of_range("range");
                           ref.replace(ref.begin() + i, ref.begin() + j, clampc(c2), ch); RET_; }); }
      OP("rep_itit_il", 3) { CI f = ci(1), l = ci(2); size_t i = ip(1), j = ip(2); if (a[3].compare(0, 3, "il:") != 0) throw BadOp();
         auto il = ilist(std::stoull(a[3].substr(3)));
         return run(IMPL { s->replace(f, l, il); RET_; },
                    TWIN { if (i > j) throw std::out_of_range("range");
                           ref.replace(ref.begin() + i, ref.begin() + j, il); RET_; }); }

      // ----- substr / copy / swap ------------------------------------------------------------------
      OP("substr", 2) { size_t p = N(1), c = N(2);
         return run(IMPL { return enc(s->substr(p, c)); }, TWIN { return enc(ref.substr(p, c)); }); }
      OP("substr_p", 1) { size_t p = N(1);
         return run(IMPL { return enc(s->substr(p)); }, TWIN { return enc(ref.substr(p)); }); }
      OP("copy", 2) { size_t c = N(1), p = N(2);
         size_t room = (p < curLen()) ? std::min(c, curLen() - p) : 0;
         // destination: a heap block of exactly the `room` bytes std::string copies (room = 0: a pointer behind a block)
         return run(IMPL { ExactBuf d(room, 0x7e); size_t n = s->copy(d.p, c, p); return rn(n) + ":" + enc(std::string(d.p, std::min(n, room))); },
                    TWIN { ExactBuf d(room, 0x7e); size_t n = ref.copy(d.p, c, p); return rn(n) + ":" + enc(std::string(d.p, std::min(n, room))); }); }
      OP("copy_c", 1) { size_t c = N(1);
         size_t room = std::min(c, curLen());
         return run(IMPL { ExactBuf d(room, 0x7e); size_t n = s->copy(d.p, c); return rn(n) + ":" + enc(std::string(d.p, std::min(n, room))); },
                    TWIN { ExactBuf d(room, 0x7e); size_t n = ref.copy(d.p, c); return rn(n) + ":" + enc(std::string(d.p, std::min(n, room))); }); }
      OP("swap", 1) { T(1); std::string tpre = t->str();
         return run(IMPL { s->swap(*t); RET_; }, TWIN { ref = tpre; RET_; }, true); }

      // ----- find family ----------------------------------------------------------------------------
#define FIND5(PFX, METHOD)                                                                                            \
      OP(PFX "_f", 2) { const FS& F = T(1); size_t p = N(2); std::string x = F.str();                                 \
         return run(IMPL { return rn(s->METHOD(F, p)); }, TWIN { return rn(ref.METHOD(x, p)); }); }                     \
      OP(PFX "_f0", 1) { const FS& F = T(1); std::string x = F.str();                                                 \
         return run(IMPL { return rn(s->METHOD(F)); }, TWIN { return rn(ref.METHOD(x)); }); }                           \
      OP(PFX "_s", 2) { const std::string& x = SS(1); size_t p = N(2);                                                \
         return run(IMPL { return rn(s->METHOD(x, p)); }, TWIN { return rn(ref.METHOD(x, p)); }); }                     \
      OP(PFX "_s0", 1) { const std::string& x = SS(1);                                                                \
         return run(IMPL { return rn(s->METHOD(x)); }, TWIN { return rn(ref.METHOD(x)); }); }                           \
      OP(PFX "_ppc", 3) { const char* q = P(1); size_t p = N(2), c = N(3); std::string pr = PR(1);                    \
         if (c > pr.size() + 1) throw BadOp();                                                                        \
         pr.push_back('\0');                                                                                          \
         return run(IMPL { return rn(s->METHOD(q, p, c)); }, TWIN { return rn(ref.METHOD(pr.data(), p, c)); }); }       \
      OP(PFX "_pp", 2) { const char* q = P(1); size_t p = N(2); std::string ps = PS(1);                               \
         return run(IMPL { return rn(s->METHOD(q, p)); }, TWIN { return rn(ref.METHOD(ps.c_str(), p)); }); }           \
      OP(PFX "_p0", 1) { const char* q = P(1); std::string ps = PS(1);                                                \
         return run(IMPL { return rn(s->METHOD(q)); }, TWIN { return rn(ref.METHOD(ps.c_str())); }); }                 \
      OP(PFX "_c", 2) { char ch = C(1); size_t p = N(2);                                                              \
         return run(IMPL { return rn(s->METHOD(ch, p)); }, TWIN { return rn(ref.METHOD(ch, p)); }); }                   \
      OP(PFX "_c0", 1) { char ch = C(1);                                                                              \
         return run(IMPL { return rn(s->METHOD(ch)); }, TWIN { return rn(ref.METHOD(ch)); }); }
      FIND5("find", find)
      FIND5("rfind", rfind)
      FIND5("ffo", find_first_of)
      FIND5("ffno", find_first_not_of)
      FIND5("flo", find_last_of)
      FIND5("flno", find_last_not_of)
#undef FIND5

      // ----- free comparison operators --------------------------------------------------------------
      OP("eq", 1) return withF(1, [&](const auto& F) {
         return run(IMPL { return rb(*s == F); }, TWIN { return rb(ref == F.str()); }); });
      OP("ne", 1) return withF(1, [&](const auto& F) {
         return run(IMPL { return rb(*s != F); }, TWIN { return rb(ref != F.str()); }); });
      return "bad-op";
   }
#undef OP
#undef IMPL
#undef TWIN
#undef RET_
};

}  // namespace

#define MAKE1(FN, LA)                                            \
   IBox* FN(size_t L, size_t su) { return (L == LA && su == SU_DEFAULT) ? new Box<LA>() : nullptr; }
#define MAKE2(FN, LA, SA)                                        \
   IBox* FN(size_t L, size_t su) { return (L == LA && su == SA) ? new Box<LA, SA>() : nullptr; }

#if FS_PART == 0 || defined(FS_ALL)
MAKE1(make_box_part0, 1)
#endif
#if FS_PART == 1 || defined(FS_ALL)
MAKE1(make_box_part1, 2)
#endif
#if FS_PART == 2 || defined(FS_ALL)
MAKE1(make_box_part2, 3)
#endif
#if FS_PART == 3 || defined(FS_ALL)
MAKE1(make_box_part3, 4)
#endif
#if FS_PART == 4 || defined(FS_ALL)
MAKE1(make_box_part4, 5)
#endif
#if FS_PART == 5 || defined(FS_ALL)
MAKE1(make_box_part5, 7)
#endif
#if FS_PART == 6 || defined(FS_ALL)
MAKE1(make_box_part6, 8)
#endif
#if FS_PART == 7 || defined(FS_ALL)
MAKE1(make_box_part7, 15)
#endif
#if FS_PART == 8 || defined(FS_ALL)
MAKE1(make_box_part8, 16)
#endif
#if FS_PART == 9 || defined(FS_ALL)
MAKE1(make_box_part9, 254)
#endif
#if FS_PART == 10 || defined(FS_ALL)
MAKE1(make_box_part10, 255)
#endif
#if FS_PART == 11 || defined(FS_ALL)
MAKE1(make_box_part11, 256)
#endif
#if FS_PART == 12 || defined(FS_ALL)
MAKE1(make_box_part12, 257)
#endif
#if FS_PART == 13 || defined(FS_ALL)
MAKE1(make_box_part13, 65534)
#endif
#if FS_PART == 14 || defined(FS_ALL)
MAKE1(make_box_part14, 65535)
#endif
#if FS_PART == 15 || defined(FS_ALL)
MAKE1(make_box_part15, 65536)
#endif

// capacities of `u` beyond the width of the length type of `s` (arguments of type FixedString<S> that are
// longer than 255 / 65535 characters)
#if FS_PART == 16 || defined(FS_ALL)
MAKE2(make_box_part16, 15, 300)
#endif
#if FS_PART == 17 || defined(FS_ALL)
MAKE2(make_box_part17, 255, 600)
#endif
#if FS_PART == 18 || defined(FS_ALL)
MAKE2(make_box_part18, 256, 70000)
#endif

#if FS_PART == 0
int main() {
   std::unique_ptr<IBox> box;
   return vh::run([&](const std::vector<std::string>& t, const std::string&) -> std::string {
      if (t.size() == 2 && t[0] == "case") { box.reset(); return "ok"; }
      if ((t.size() == 2 || t.size() == 3) && t[0] == "new") {
         size_t L = 0, su = SU_DEFAULT;
         try { L = std::stoull(t[1]); if (t.size() == 3) su = std::stoull(t[2]); } catch (const std::exception&) { return "bad-op"; }
         IBox* b = nullptr;
         for (auto f : {make_box_part0, make_box_part1, make_box_part2, make_box_part3, make_box_part4,
                        make_box_part5, make_box_part6, make_box_part7, make_box_part8, make_box_part9,
                        make_box_part10, make_box_part11, make_box_part12, make_box_part13, make_box_part14,
                        make_box_part15, make_box_part16, make_box_part17, make_box_part18})
            if (!b) b = f(L, su);
         box.reset(b);
         return b ? "ok" : "bad-op";
      }
      if (!box || t.empty()) return "bad-op";
      return box->exec(t);
   });
}
#endif
