// correspondence harness for celma::common::ReadBuffer / WriteBuffer (C19)
#include "common.hpp"
#include <memory>
#include "celma/common/read_buffer.hpp"
#include "celma/common/write_buffer.hpp"

using Bytes = std::vector<unsigned char>;

struct IWriter {
   virtual ~IWriter() = default;
   virtual void append(const Bytes& d) = 0;
   virtual void flush() = 0;
   virtual size_t buffered() const = 0;
   std::vector<Bytes> sink;   // blocks handed to writeData
};

template <size_t N> struct Writer : public IWriter, public celma::common::WriteBuffer<N> {
   // exact-size heap copies so that ASan sees any read beyond the caller's block
   void append(const Bytes& d) override {
      std::unique_ptr<unsigned char[]> p(new unsigned char[d.size() ? d.size() : 1]);
      if (!d.empty()) std::memcpy(p.get(), d.data(), d.size());
      celma::common::WriteBuffer<N>::append(p.get(), d.size());
   }
   void flush() override { celma::common::WriteBuffer<N>::flush(); }
   size_t buffered() const override { return celma::common::WriteBuffer<N>::buffered(); }
   void writeData(const unsigned char* const data, size_t len) const override {
      const_cast<Writer*>(this)->sink.emplace_back(data, data + len);
   }
};

struct IReader {
   virtual ~IReader() = default;
   virtual Bytes get(size_t len) = 0;
   Bytes src;
   size_t srcPos = 0;
   std::vector<size_t> chunks;
   size_t chunkIdx = 0;
   size_t maxReq = 0;   // largest request seen by readData (oracle: never beyond N)
};

template <size_t N> struct Reader : public IReader, public celma::common::ReadBuffer<N> {
   Bytes get(size_t len) override {
      std::unique_ptr<unsigned char[]> p(new unsigned char[len ? len : 1]);
      celma::common::ReadBuffer<N>::get(p.get(), len);
      return Bytes(p.get(), p.get() + len);
   }
   size_t readData(unsigned char* data, size_t len) override {
      if (srcPos == src.size()) throw vh::Eof();
      if (len > maxReq) maxReq = len;
      size_t offer = len;
      if (chunkIdx < chunks.size()) offer = chunks[chunkIdx++];
      size_t n = std::min(std::min(len, offer), src.size() - srcPos);
      std::memcpy(data, src.data() + srcPos, n);
      srcPos += n;
      return n;
   }
};

template <template <size_t> class T, class I> std::unique_ptr<I> make(size_t n) {
   switch (n) {
   case 1: return std::make_unique<T<1>>();
   case 2: return std::make_unique<T<2>>();
   case 3: return std::make_unique<T<3>>();
   case 4: return std::make_unique<T<4>>();
   case 5: return std::make_unique<T<5>>();
   case 7: return std::make_unique<T<7>>();
   case 8: return std::make_unique<T<8>>();
   case 16: return std::make_unique<T<16>>();
   case 64: return std::make_unique<T<64>>();
   default: return nullptr;
   }
}

int main() {
   std::unique_ptr<IWriter> w;
   std::unique_ptr<IReader> r;
   Bytes allAppended;   // property oracle on the implementation alone
   return vh::run([&](const std::vector<std::string>& t, const std::string&) -> std::string {
      if (t.size() == 2 && t[0] == "case") { w.reset(); r.reset(); allAppended.clear(); return "ok"; }
      if (t.size() == 3 && t[0] == "wb" && t[1] == "new") {
         w = make<Writer, IWriter>(std::stoull(t[2]));
         allAppended.clear();
         return w ? "ok" : "bad-op";
      }
      if (t.size() >= 2 && t[0] == "wb" && w && (t[1] == "append" || t[1] == "flush")) {
         size_t before = w->sink.size();
         std::string err;
         if (t[1] == "append") {
            Bytes d;
            if (t.size() != 3 || !vh::hexDecode(t[2], d)) return "bad-op";
            allAppended.insert(allAppended.end(), d.begin(), d.end());
            err = vh::guarded([&] { w->append(d); });
         } else {
            err = vh::guarded([&] { w->flush(); });
         }
         if (!err.empty()) return err;
         std::string wrote;
         for (size_t i = before; i < w->sink.size(); ++i) {
            if (i > before) wrote += "|";
            wrote += vh::hexOut(w->sink[i]);
         }
         if (wrote.empty()) wrote = "-";
         std::string out = "ok buffered=" + std::to_string(w->buffered()) + " wrote=" + wrote;
         // oracle: sink is a prefix of what was appended, the rest is exactly the buffered count
         Bytes flat;
         for (auto& b : w->sink) flat.insert(flat.end(), b.begin(), b.end());
         bool good = flat.size() + w->buffered() == allAppended.size() &&
                     std::equal(flat.begin(), flat.end(), allAppended.begin());
         if (t[1] == "flush" && w->buffered() != 0) good = false;
         if (!good) out = "!! sink+buffered differs from appended stream; " + out;
         return out;
      }
      if (t.size() == 5 && t[0] == "rb" && t[1] == "new") {
         r = make<Reader, IReader>(std::stoull(t[2]));
         if (!r || !vh::hexDecode(t[3], r->src)) return "bad-op";
         r->chunks = vh::natList(t[4]);
         return "ok";
      }
      if (t.size() == 3 && t[0] == "rb" && t[1] == "get" && r) {
         size_t len = std::stoull(t[2]);
         size_t before = r->srcPos;
         Bytes d;
         std::string err = vh::guarded([&] { d = r->get(len); });
         std::string tail = " srcbytes=" + std::to_string(r->srcPos - before);
         if (!err.empty()) return err + tail;
         return "ok data=" + vh::hexOut(d) + tail;
      }
      return "bad-op";
   });
}
