// correspondence harness for the rolling log file policies (C15):
// celma::log::files::Counted / MaxSize driven through files::Handler with a raw-text formatter.
//
// protocol (one line in -> one line out):
//   case <id>                                 fresh scratch directory, no policy object
//   start counted|maxsize <limit> <gens>      construct policy + Handler (= open)
//   write <hex text>                          one log message with that text through Handler::handleMessage
//   restart                                   destroy the Handler (and its policy), keep the files, construct again
// result line: `ok n=<files> <hex of file gen k-1>|...|<hex of file gen 0>` (oldest -> newest, every file
// of the scratch directory; a name that is not a generation name is listed as `?<name>`), or
// `throw <class> n=...` with the same listing.
// `!!` lines: the property's own oracle evaluated on the implementation alone (see oracle()).
#include "common.hpp"

#include <dirent.h>
#include <sys/stat.h>
#include <unistd.h>
#include <algorithm>
#include <fstream>
#include <map>
#include <memory>

#include "celma/log/detail/i_format_stream.hpp"
#include "celma/log/detail/log_msg.hpp"
#include "celma/log/filename/creator.hpp"
#include "celma/log/filename/definition.hpp"
#include "celma/log/files/counted.hpp"
#include "celma/log/files/handler.hpp"
#include "celma/log/files/max_size.hpp"

namespace clf = celma::log::files;
namespace clfn = celma::log::filename;

namespace {

/// raw text formatter: the file gets exactly the message text (Handler adds nothing, the policy adds '\n')
class RawFormat final : public celma::log::detail::IFormatStream {
   void format(std::ostream& out, const celma::log::detail::LogMsg& msg) const override { out << msg.getText(); }
};

struct Session {
   std::string kind;
   size_t limit = 0;
   int gens = 0;
   std::unique_ptr<celma::log::detail::ILogDest> dest;
};

std::string gDir;            // scratch directory of the current case (relative to cwd)
int gDirCounter = 0;
Session gS;
std::vector<std::string> gWritten;   // every message text accepted so far (oracle)

/// what the oracle saw after the previous event of the case (for the clause "one event drops at most the oldest
/// generation"): number of retained messages, of messages in the oldest generation file, of generation files,
/// and of messages written
struct Snap {
   bool valid = false;
   size_t flat = 0, oldest = 0, gens = 0, written = 0;
};
Snap gPrev, gNow;

void rmDir(const std::string& d) {
   if (d.empty()) return;
   if (DIR* dp = ::opendir(d.c_str())) {
      while (dirent* e = ::readdir(dp)) {
         std::string n = e->d_name;
         if (n != "." && n != "..") ::unlink((d + "/" + n).c_str());
      }
      ::closedir(dp);
   }
   ::rmdir(d.c_str());
}

std::string genName(int g) {
   char b[64];
   std::snprintf(b, sizeof b, "log.%02d.txt", g);
   return b;
}

void construct() {
   clfn::Definition def;
   clfn::Creator creator(def);
   creator << (gDir + "/log.") << 2 << clfn::number << ".txt";
   gS.dest.reset();
   if (gS.kind == "counted")
      gS.dest = std::make_unique<clf::Handler<clf::Counted>>(new clf::Counted(def, gS.limit, gS.gens));
   else
      gS.dest = std::make_unique<clf::Handler<clf::MaxSize>>(new clf::MaxSize(def, gS.limit, gS.gens));
   gS.dest->setFormatter(new RawFormat());
}

/// name -> content of every regular file in the scratch directory
std::map<std::string, std::string> readAll() {
   std::map<std::string, std::string> m;
   if (DIR* dp = ::opendir(gDir.c_str())) {
      while (dirent* e = ::readdir(dp)) {
         std::string n = e->d_name;
         if (n == "." || n == "..") continue;
         std::ifstream in(gDir + "/" + n, std::ios::binary);
         std::ostringstream ss;
         ss << in.rdbuf();
         m[n] = ss.str();
      }
      ::closedir(dp);
   }
   return m;
}

/// generation files oldest -> newest; foreign names appended as ?name
std::string listing(std::vector<std::string>* gensOut) {
   auto m = readAll();
   std::vector<std::string> parts;
   size_t n = m.size();
   for (int g = 99; g >= 0; --g) {
      auto it = m.find(genName(g));
      if (it == m.end()) continue;
      parts.push_back(vh::hexOut(it->second));
      if (gensOut) gensOut->push_back(it->second);
      m.erase(it);
   }
   for (auto& kv : m) parts.push_back("?" + kv.first);
   std::string s = "ok n=" + std::to_string(n);
   for (size_t i = 0; i < parts.size(); ++i) s += (i ? "|" : " ") + parts[i];
   return s;
}

size_t cost(const std::string& msg) { return gS.kind == "counted" ? 1 : msg.size() + 1; }

/// the property evaluated on what is on disk alone.  Domain: limit >= 1 and no message contains a newline
/// (the lines of a file are taken as its messages); otherwise skipped.  Messages that are longer than a whole
/// generation ARE in the domain: the limit clause (2) then reads "a generation respects the limit or consists
/// of exactly one message" (Lean: GenOk), the other clauses are unchanged.
std::string oracle(const std::vector<std::string>& gens) {
   if (gS.limit < 1) return "";
   for (auto& w : gWritten)
      if (w.find('\n') != std::string::npos) return "";
   // split every generation into its lines; every line must be newline-terminated (no truncation)
   std::vector<std::vector<std::string>> lines;
   for (auto& g : gens) {
      lines.emplace_back();
      size_t p = 0;
      while (p < g.size()) {
         size_t q = g.find('\n', p);
         if (q == std::string::npos) return "!! torn line at the end of a generation";
         lines.back().push_back(g.substr(p, q - p));
         p = q + 1;
      }
   }
   // (1) retained messages = suffix of the written ones, in order
   std::vector<std::string> flat;
   for (auto& l : lines) flat.insert(flat.end(), l.begin(), l.end());
   gNow.valid = true;
   gNow.flat = flat.size();
   gNow.oldest = lines.empty() ? 0 : lines.front().size();
   gNow.gens = gens.size();
   gNow.written = gWritten.size();
   if (flat.size() > gWritten.size() ||
       !std::equal(flat.begin(), flat.end(), gWritten.end() - static_cast<long>(flat.size())))
      return "!! retained messages are not the most recent ones in order (retained " + std::to_string(flat.size()) +
             " of " + std::to_string(gWritten.size()) + ")";
   // (1b) nothing is lost before the configured number of generations is reached
   if (gens.size() < static_cast<size_t>(std::max(gS.gens, 1)) && flat.size() != gWritten.size())
      return "!! messages lost although fewer generations than configured exist (retained " +
             std::to_string(flat.size()) + " of " + std::to_string(gWritten.size()) + ")";
   // (1c) the most recent message is retained (given (1): the retained messages are not empty).  With a single
   //      generation file that a restart found full this fails on the unchanged library (Lean:
   //      C15_latest_retained_partial / C15_latest_lost_iff / C15_finding_single_file_restart): recorded finding
   //      `single-file-restart-loses-all`, matched by the plugin; the listing follows behind " :: " and is
   //      still compared with the model
   const size_t maxGens = static_cast<size_t>(std::max(gS.gens, 1));
   if (!gWritten.empty() && flat.empty())
      return "!! the most recent message is not retained (0 of " + std::to_string(gWritten.size()) + ")";
   // (1d) one event drops at most the oldest generation, and only when the configured number of files existed
   //      (Lean: C15_drop_at_most_oldest); given (1) it is enough to count
   if (gPrev.valid) {
      size_t before = gPrev.flat + (gWritten.size() - gPrev.written);
      size_t dropped = before >= flat.size() ? before - flat.size() : 0;
      if (dropped != 0 && !(gPrev.gens >= maxGens && dropped == gPrev.oldest))
         return "!! one event dropped " + std::to_string(dropped) + " retained messages; the oldest of " +
                std::to_string(gPrev.gens) + " generations held " + std::to_string(gPrev.oldest);
   }
   // (2) limit: only a generation that is one single message (which then does not fit a generation on its
   //     own: there is nowhere else to put it) may exceed it; a generation with two or more messages above the
   //     limit means a message was appended although it did not fit
   for (size_t i = 0; i < gens.size(); ++i) {
      size_t sz = gS.kind == "counted" ? lines[i].size() : gens[i].size();
      if (sz > gS.limit && lines[i].size() != 1)
         return "!! generation exceeds its limit: " + std::to_string(sz) + " > " + std::to_string(gS.limit) + " with " +
                std::to_string(lines[i].size()) + " messages";
   }
   // (3) a new generation only when the next message would not have fitted behind the content of the previous
   //     one (an over-long message fits nowhere; nothing fits behind an over-long message)
   for (size_t i = 0; i + 1 < gens.size(); ++i) {
      size_t sz = gS.kind == "counted" ? lines[i].size() : gens[i].size();
      size_t next = lines[i + 1].empty() ? 1 : cost(lines[i + 1].front());
      if (sz + next <= gS.limit)
         return "!! new generation started although the next message fitted: " + std::to_string(sz) + " + " +
                std::to_string(next) + " <= " + std::to_string(gS.limit);
   }
   // (4) number of generations
   if (gS.gens >= 1 && gens.size() > static_cast<size_t>(gS.gens))
      return "!! more generations than configured: " + std::to_string(gens.size());
   return "";
}

std::string report() {
   std::vector<std::string> gens;
   std::string l = listing(&gens);
   gNow = Snap();
   std::string o = oracle(gens);
   gPrev = gNow;
   return o.empty() ? l : o + " :: " + l;
}

}  // namespace

int main() {
   const std::string base = "lf_" + std::to_string(::getpid());
   int rc = vh::run([&](const std::vector<std::string>& t, const std::string&) -> std::string {
      if (t.size() == 2 && t[0] == "case") {
         gS = Session();
         rmDir(gDir);
         gDir = base + "_" + std::to_string(gDirCounter++);
         ::mkdir(gDir.c_str(), 0755);
         gWritten.clear();
         gPrev = Snap();
         return "ok";
      }
      if (gDir.empty()) return "bad-op";
      if (t.size() == 4 && t[0] == "start" && (t[1] == "counted" || t[1] == "maxsize")) {
         if (!gS.kind.empty()) return "bad-op";
         gS.kind = t[1];
         gS.limit = std::stoull(t[2]);
         gS.gens = std::stoi(t[3]);
         std::string e = vh::guarded([&] { construct(); });
         if (!e.empty()) { gS.dest.reset(); return e + listing(nullptr).substr(2); }
         return report();
      }
      if (t.size() == 2 && t[0] == "write") {
         if (!gS.dest) return "bad-op";
         std::string text;
         if (!vh::hexDecodeStr(t[1], text)) return "bad-op";
         celma::log::detail::LogMsg msg("harness.cpp", "write", 1);
         msg.setText(text);
         std::string e = vh::guarded([&] { gS.dest->handleMessage(msg); });
         if (!e.empty()) return e + listing(nullptr).substr(2);
         gWritten.push_back(text);
         return report();
      }
      if (t.size() == 1 && t[0] == "restart") {
         if (gS.kind.empty()) return "bad-op";
         gS.dest.reset();   // closes the file; the files stay
         std::string e = vh::guarded([&] { construct(); });
         if (!e.empty()) { gS.dest.reset(); return e + listing(nullptr).substr(2); }
         return report();
      }
      return "bad-op";
   });
   gS.dest.reset();
   rmDir(gDir);
   return rc;
}
