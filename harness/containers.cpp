// Correspondence harness for property C06: container destinations of celma::prog_args.
//
// One real celma::prog_args::Handler with ONE container argument ("v,vals") per evaluation.
//
//   case <id>                          reset                                       -> ok
//   cont kind=<k> [sep=<c>] [pair=<s>] clear=0|1 sort=0|1 unique=none|drop|error multi=0|1
//        [init=<a,b,c>] [check=<spec>]* [fmt=upper|lower] [fmtpos=<idx>:<upper|lower>,<idx>:<upper|lower>,...]
//                                      remembers the configuration, builds it once -> ok | throw <class>
//                                      options are applied in the order pair, sep, clear, sort, unique, multi,
//                                      checks, fmt (addFormat), fmtpos (one addFormatPos( idx, uppercase()/
//                                      lowercase()) per entry, in the order given; idx decimal >= 0, the same idx
//                                      may appear more than once); an unparsable fmtpos -> bad-op
//   eval <argv words...>               fresh destination + handler from the configuration, runs the real
//                                      Handler::evalArguments                      -> ok <content> | throw <class> <content>
//   evalref <argv words...>            same as eval; its result becomes the reference of this `cont`
//   evalsame <argv words...>           same as eval; the words are another cut of the element sequence of the
//                                      last `evalref`: a result that differs from the reference is printed as
//                                      `!! cut-dependent ...` (oracle on the implementation alone)
//
//   kinds: vec_int vec_str deque_int list_int fwdlist_int set_int multiset_int stack_int queue_int prioq_int
//          carray_int:N stdarray_int:N carray_str:N stdarray_str:N bitset:N map_int_str tuple_int_str_int
//   check specs: lower:<n> upper:<n> range:<a>:<b> minlen:<n> maxlen:<n>
//   content: container order (adapters are popped from a copy), arrays print all N slots, bitsets the
//            positions that are set, maps k:v, an argv word '' is the empty string.
#include "common.hpp"

#include <array>
#include <bitset>
#include <deque>
#include <forward_list>
#include <list>
#include <map>
#include <memory>
#include <queue>
#include <set>
#include <stack>
#include <tuple>

#include "celma/prog_args.hpp"

using celma::prog_args::Handler;
using celma::prog_args::detail::TypedArgBase;

namespace {

struct Config {
   bool valid = false;
   std::string kind;
   size_t n = 0;
   bool hasSep = false;
   char sep = ',';
   std::string pair;
   bool clear = false, sort = false, multi = false;
   std::string unique = "none";
   std::vector<std::string> init;
   std::vector<std::string> checks;
   std::string fmt;
   std::vector<std::pair<int, bool>> fmtPos;   // (idx, upper?) = the addFormatPos calls in order
};

std::vector<std::string> splitList(const std::string& s, char c) {
   std::vector<std::string> out;
   if (s.empty() || s == "-") return out;
   std::string cur;
   for (char ch : s) {
      if (ch == c) { out.push_back(cur); cur.clear(); } else cur += ch;
   }
   out.push_back(cur);
   return out;
}

/// `<idx>:<upper|lower>,...`, idx decimal (at most 6 digits)
bool parseFmtPos(const std::string& s, std::vector<std::pair<int, bool>>& out) {
   if (s.empty() || s == "-") return false;
   for (auto& e : splitList(s, ',')) {
      size_t p = e.find(':');
      if (p == std::string::npos || p == 0 || p > 6) return false;
      for (size_t i = 0; i < p; ++i) if (e[i] < '0' || e[i] > '9') return false;
      std::string f = e.substr(p + 1);
      if (f != "upper" && f != "lower") return false;
      out.push_back({std::stoi(e.substr(0, p)), f == "upper"});
   }
   return true;
}

bool parseConfig(const std::vector<std::string>& toks, Config& c) {
   c = Config();
   std::string kind = vh::kv(toks, "kind");
   size_t colon = kind.find(':');
   if (colon != std::string::npos) {
      c.n = std::stoul(kind.substr(colon + 1));
      kind = kind.substr(0, colon);
   }
   c.kind = kind;
   for (auto& t : toks) {
      if (t.compare(0, 4, "sep=") == 0 && t.size() == 5) { c.hasSep = true; c.sep = t[4]; }
      else if (t.compare(0, 5, "pair=") == 0) c.pair = t.substr(5);
      else if (t.compare(0, 6, "clear=") == 0) c.clear = t.substr(6) == "1";
      else if (t.compare(0, 5, "sort=") == 0) c.sort = t.substr(5) == "1";
      else if (t.compare(0, 6, "multi=") == 0) c.multi = t.substr(6) == "1";
      else if (t.compare(0, 7, "unique=") == 0) c.unique = t.substr(7);
      else if (t.compare(0, 5, "init=") == 0) c.init = splitList(t.substr(5), ',');
      else if (t.compare(0, 6, "check=") == 0) c.checks.push_back(t.substr(6));
      else if (t.compare(0, 4, "fmt=") == 0) c.fmt = t.substr(4);
      else if (t.compare(0, 7, "fmtpos=") == 0) { if (!parseFmtPos(t.substr(7), c.fmtPos)) return false; }
   }
   return !c.kind.empty();
}

template <typename It> std::string joinInts(It b, It e) {
   std::string s = "[";
   bool first = true;
   for (; b != e; ++b) { if (!first) s += ","; s += std::to_string(*b); first = false; }
   return s + "]";
}
template <typename It> std::string joinStrs(It b, It e) {
   std::string s = "[";
   bool first = true;
   for (; b != e; ++b) { if (!first) s += ","; s += *b; first = false; }
   return s + "]";
}

/// applies the options of the configuration to the argument (in a fixed order)
void applyOptions(TypedArgBase* a, const Config& c) {
   if (!c.pair.empty()) a->setPairFormat(c.pair);
   if (c.hasSep) a->setListSep(c.sep);
   if (c.clear) a->setClearBeforeAssign();
   if (c.sort) a->setSortData();
   if (c.unique == "drop") a->setUniqueData(false);
   else if (c.unique == "error") a->setUniqueData(true);
   if (c.multi) a->setTakesMultiValue();
   for (auto& ch : c.checks) {
      auto p = splitList(ch, ':');
      if (p.size() == 2 && p[0] == "lower") a->addCheck(celma::prog_args::lower(std::stoi(p[1])));
      else if (p.size() == 2 && p[0] == "upper") a->addCheck(celma::prog_args::upper(std::stoi(p[1])));
      else if (p.size() == 3 && p[0] == "range") a->addCheck(celma::prog_args::range(std::stoi(p[1]), std::stoi(p[2])));
      else if (p.size() == 2 && p[0] == "minlen") a->addCheck(celma::prog_args::minLength(std::stoul(p[1])));
      else if (p.size() == 2 && p[0] == "maxlen") a->addCheck(celma::prog_args::maxLength(std::stoul(p[1])));
      else throw std::domain_error("harness: unknown check");
   }
   if (c.fmt == "upper") a->addFormat(celma::prog_args::uppercase());
   else if (c.fmt == "lower") a->addFormat(celma::prog_args::lowercase());
   for (auto& fp : c.fmtPos) {
      if (fp.second) a->addFormatPos(fp.first, celma::prog_args::uppercase());
      else a->addFormatPos(fp.first, celma::prog_args::lowercase());
   }
}

/// runs the real evalArguments on the words; returns "" or "throw <class>"
std::string runEval(Handler& ah, const std::vector<std::string>& words) {
   std::vector<std::string> store;
   store.push_back("prog");
   for (auto& w : words) store.push_back(w == "''" ? std::string() : w);
   std::vector<char*> argv;
   for (auto& s : store) argv.push_back(const_cast<char*>(s.c_str()));
   argv.push_back(nullptr);
   return vh::guarded([&] { ah.evalArguments(static_cast<int>(store.size()), argv.data()); });
}

template <typename C> void fillInts(C& c, const Config& cfg) {
   for (auto& s : cfg.init) c.insert(c.end(), std::stoi(s));
}

template <typename C, typename Show>
std::string runSeq(const Config& cfg, const std::vector<std::string>* words, C& dest, Show show) {
   Handler ah(0);
   std::string r = vh::guarded([&] { applyOptions(ah.addArgument("v,vals", DEST_VAR(dest), "values"), cfg); });
   if (!r.empty() || words == nullptr) return r.empty() ? "ok" : r;
   r = runEval(ah, *words);
   return (r.empty() ? "ok " : r + " ") + show(dest);
}

template <typename A> std::string popAll(A a, bool isQueue) {
   std::vector<int> v;
   while (!a.empty()) {
      if constexpr (std::is_same<A, std::queue<int>>::value) v.push_back(a.front()); else v.push_back(a.top());
      a.pop();
   }
   (void)isQueue;
   return joinInts(v.begin(), v.end());
}

template <size_t N> std::string runCArray(const Config& cfg, const std::vector<std::string>* words) {
   int arr[N];
   for (size_t i = 0; i < N; ++i) arr[i] = i < cfg.init.size() ? std::stoi(cfg.init[i]) : 0;
   return runSeq(cfg, words, arr, [](int (&a)[N]) { return joinInts(a, a + N); });
}
template <size_t N> std::string runStdArray(const Config& cfg, const std::vector<std::string>* words) {
   std::array<int, N> arr;
   for (size_t i = 0; i < N; ++i) arr[i] = i < cfg.init.size() ? std::stoi(cfg.init[i]) : 0;
   return runSeq(cfg, words, arr, [](std::array<int, N>& a) { return joinInts(a.begin(), a.end()); });
}
template <size_t N> std::string runCArrayStr(const Config& cfg, const std::vector<std::string>* words) {
   std::string arr[N];
   for (size_t i = 0; i < N; ++i) arr[i] = i < cfg.init.size() ? cfg.init[i] : std::string();
   return runSeq(cfg, words, arr, [](std::string (&a)[N]) { return joinStrs(a, a + N); });
}
template <size_t N> std::string runStdArrayStr(const Config& cfg, const std::vector<std::string>* words) {
   std::array<std::string, N> arr;
   for (size_t i = 0; i < N; ++i) arr[i] = i < cfg.init.size() ? cfg.init[i] : std::string();
   return runSeq(cfg, words, arr, [](std::array<std::string, N>& a) { return joinStrs(a.begin(), a.end()); });
}
template <size_t N> std::string runBitset(const Config& cfg, const std::vector<std::string>* words) {
   std::bitset<N> bs;
   for (auto& s : cfg.init) bs.set(std::stoul(s));
   return runSeq(cfg, words, bs, [](std::bitset<N>& b) {
      std::vector<int> v;
      for (size_t i = 0; i < N; ++i) if (b[i]) v.push_back(static_cast<int>(i));
      return joinInts(v.begin(), v.end());
   });
}

#define SIZES(F) \
   switch (cfg.n) { \
   case 1: return F<1>(cfg, words); case 2: return F<2>(cfg, words); case 3: return F<3>(cfg, words); \
   case 4: return F<4>(cfg, words); case 5: return F<5>(cfg, words); case 6: return F<6>(cfg, words); \
   case 8: return F<8>(cfg, words); case 64: return F<64>(cfg, words); case 65: return F<65>(cfg, words); \
   default: return "bad-op"; }

std::string runArr(const Config& cfg, const std::vector<std::string>* words) { SIZES(runCArray) }
std::string runSArr(const Config& cfg, const std::vector<std::string>* words) { SIZES(runStdArray) }
std::string runArrStr(const Config& cfg, const std::vector<std::string>* words) { SIZES(runCArrayStr) }
std::string runSArrStr(const Config& cfg, const std::vector<std::string>* words) { SIZES(runStdArrayStr) }
std::string runBits(const Config& cfg, const std::vector<std::string>* words) { SIZES(runBitset) }

/// words == nullptr: only build the configuration
std::string runOne(const Config& cfg, const std::vector<std::string>* words) {
   const std::string& k = cfg.kind;
   if (k == "vec_int") {
      std::vector<int> d; fillInts(d, cfg);
      return runSeq(cfg, words, d, [](std::vector<int>& c) { return joinInts(c.begin(), c.end()); });
   }
   if (k == "vec_str") {
      std::vector<std::string> d(cfg.init.begin(), cfg.init.end());
      return runSeq(cfg, words, d, [](std::vector<std::string>& c) { return joinStrs(c.begin(), c.end()); });
   }
   if (k == "deque_int") {
      std::deque<int> d; fillInts(d, cfg);
      return runSeq(cfg, words, d, [](std::deque<int>& c) { return joinInts(c.begin(), c.end()); });
   }
   if (k == "list_int") {
      std::list<int> d; fillInts(d, cfg);
      return runSeq(cfg, words, d, [](std::list<int>& c) { return joinInts(c.begin(), c.end()); });
   }
   if (k == "fwdlist_int") {
      std::forward_list<int> d;
      for (auto it = cfg.init.rbegin(); it != cfg.init.rend(); ++it) d.push_front(std::stoi(*it));
      return runSeq(cfg, words, d, [](std::forward_list<int>& c) { return joinInts(c.begin(), c.end()); });
   }
   if (k == "set_int") {
      std::set<int> d; fillInts(d, cfg);
      return runSeq(cfg, words, d, [](std::set<int>& c) { return joinInts(c.begin(), c.end()); });
   }
   if (k == "multiset_int") {
      std::multiset<int> d; fillInts(d, cfg);
      return runSeq(cfg, words, d, [](std::multiset<int>& c) { return joinInts(c.begin(), c.end()); });
   }
   if (k == "stack_int") {     // init is given in pop order (top first)
      std::stack<int> d;
      for (auto it = cfg.init.rbegin(); it != cfg.init.rend(); ++it) d.push(std::stoi(*it));
      return runSeq(cfg, words, d, [](std::stack<int>& c) { return popAll(c, false); });
   }
   if (k == "queue_int") {
      std::queue<int> d;
      for (auto& s : cfg.init) d.push(std::stoi(s));
      return runSeq(cfg, words, d, [](std::queue<int>& c) { return popAll(c, true); });
   }
   if (k == "prioq_int") {
      std::priority_queue<int> d;
      for (auto& s : cfg.init) d.push(std::stoi(s));
      return runSeq(cfg, words, d, [](std::priority_queue<int>& c) { return popAll(c, false); });
   }
   if (k == "carray_int") return runArr(cfg, words);
   if (k == "stdarray_int") return runSArr(cfg, words);
   if (k == "carray_str") return runArrStr(cfg, words);
   if (k == "stdarray_str") return runSArrStr(cfg, words);
   if (k == "bitset") return runBits(cfg, words);
   if (k == "map_int_str") {   // init elements are k:v
      std::map<int, std::string> d;
      for (auto& s : cfg.init) {
         size_t p = s.find(':');
         if (p == std::string::npos) return "bad-op";
         d.insert({std::stoi(s.substr(0, p)), s.substr(p + 1)});
      }
      return runSeq(cfg, words, d, [](std::map<int, std::string>& c) {
         std::string s = "[";
         bool first = true;
         for (auto& kv : c) { if (!first) s += ","; s += std::to_string(kv.first) + ":" + kv.second; first = false; }
         return s + "]";
      });
   }
   if (k == "tuple_int_str_int") {
      std::tuple<int, std::string, int> d(0, "", 0);
      if (cfg.init.size() == 3) d = std::make_tuple(std::stoi(cfg.init[0]), cfg.init[1], std::stoi(cfg.init[2]));
      return runSeq(cfg, words, d, [](std::tuple<int, std::string, int>& t) {
         return "[" + std::to_string(std::get<0>(t)) + "," + std::get<1>(t) + "," + std::to_string(std::get<2>(t)) + "]";
      });
   }
   return "bad-op";
}

Config gCfg;
std::string gFirstSame;

/// what the cut-independence oracle compares: the whole line when ok, only the class when thrown
std::string oracleKey(const std::string& r) {
   if (r.compare(0, 3, "ok ") == 0) return r;
   auto t = vh::tokens(r);
   return t.size() >= 2 ? t[0] + " " + t[1] : r;
}

std::string step(const std::vector<std::string>& toks, const std::string&) {
   if (toks.empty()) return "bad-op";
   if (toks[0] == "case") { gCfg = Config(); gFirstSame.clear(); return "ok"; }
   if (toks[0] == "cont") {
      gFirstSame.clear();
      if (!parseConfig(toks, gCfg)) return "bad-op";
      std::string r;
      try { r = runOne(gCfg, nullptr); } catch (const std::exception&) { return "bad-op"; }
      gCfg.valid = (r == "ok");
      return r;
   }
   if (toks[0] == "eval" || toks[0] == "evalsame" || toks[0] == "evalref") {
      if (!gCfg.valid) return "ok none";
      std::vector<std::string> words(toks.begin() + 1, toks.end());
      std::string r = runOne(gCfg, &words);
      if (toks[0] == "evalref") gFirstSame = r;
      if (toks[0] == "evalsame" && !gFirstSame.empty() && oracleKey(gFirstSame) != oracleKey(r))
         return "!! cut-dependent ref=" + gFirstSame + " this=" + r;
      return r;
   }
   return "bad-op";
}

}  // namespace

int main() { return vh::run(step); }
