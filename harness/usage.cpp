// correspondence harness for the usage listing of celma::prog_args::Handler (C18)
//
// Drives a real Handler (flag hfUsageCont, output and error output into string streams):
//
//   us begin flags=<f1,f2,..|->      new Handler; flags: hshort hlong harg ahidden adepr ushort ulong
//                                    uhidden udepr noabbr (hfUsageCont is always set)       -> ok
//   us arg key=<spec> kind=int|flag|str [value=<int|hex>] [default=0|1] [mandatory=1] [hidden=1]
//          [deprecated=1] [replaced=<hex>] [check=lower:N;upper:N;range:A:B] [requires=<k>] [excludes=<k>]
//          desc=<hex>                addArgument() + the modifiers in exactly this order      -> ok | throw <class>
//   us linelen <n>                   setUsageLineLength()                                     -> ok | throw <class>
//   us usage [print-hidden] [print-deprecated] [help-short] [help-long]
//                                    evalArguments( prog --<word>.. -h|--help): the standard arguments switch
//                                    the usage parameters, the help argument prints the usage
//                                    -> ok text=<hex> | throw <class>
//                                    -> !! <failed clauses> text=<hex>   (membership oracle on the real text alone)
//   us helparg <key>                 evalArguments( prog --help-arg <key>)     -> ok out=<hex> err=<hex> | throw <class>
//
// The oracle parses the usage text back (caption lines, entry lines = 3 blanks + non-blank, everything else
// belongs to the entry above) and checks what C18 states, against the flags read back from the real argument
// objects (isMandatory()/isHidden()/isDeprecated()/key()): see design_notes/usage.md.
#include "common.hpp"

#include <deque>
#include <memory>
#include <sstream>

#include "celma/prog_args.hpp"

using celma::prog_args::Handler;
using celma::prog_args::detail::TypedArgBase;

namespace {

struct ArgRec {
   TypedArgBase* obj = nullptr;   // nullptr: standard argument, never hidden/deprecated/mandatory
   char          chr = 0;
   std::string   word;
   std::string   desc;
   bool          added = false;
};

struct State {
   std::unique_ptr<std::ostringstream> out, err;
   std::unique_ptr<Handler>            ah;
   std::deque<int>                     ints;
   std::deque<std::string>             strs;
   std::deque<std::unique_ptr<bool>>   bools;
   std::vector<ArgRec>                 args;
   bool                                hshort = false, hlong = false;
   bool                                printHidden = false, printDepr = false, uhidden = false, udepr = false;
   int                                 contents = 0;   // 0 all, 1 short, 2 long
   int                                 flagset = 0;
};

State* st = nullptr;

using Words = std::vector<std::string>;

Words wordsOf(const std::string& s) {
   Words       out;
   std::string cur;
   for (char c : s) {
      if (c == ' ' || c == '\n') {
         if (!cur.empty()) out.push_back(cur);
         cur.clear();
      } else
         cur += c;
   }
   if (!cur.empty()) out.push_back(cur);
   return out;
}

std::vector<std::string> linesOf(const std::string& s) {
   std::vector<std::string> out;
   std::string              cur;
   for (char c : s) {
      if (c == '\n') { out.push_back(cur); cur.clear(); }
      else cur += c;
   }
   if (!cur.empty()) out.push_back(cur);
   return out;
}

void stdArg(char c, const std::string& w, const std::string& d) {
   ArgRec r;
   r.chr = c; r.word = w; r.desc = d; r.added = true;
   st->args.push_back(r);
}

bool isNum(const std::string& s) {
   if (s.empty()) return false;
   size_t i = (s[0] == '-') ? 1 : 0;
   if (i == s.size() || s.size() > 9) return false;
   for (; i < s.size(); ++i) if (s[i] < '0' || s[i] > '9') return false;
   return true;
}

struct Entry { int section; std::string key; Words words; };

/// membership oracle, evaluated on the real text and the real argument objects only
std::string oracle(const std::string& text) {
   std::string bad;
   const auto  lines = linesOf(text);
   std::vector<Entry> found;
   int  section = -1, capM = 0, capO = 0;
   bool capOrder = true;
   for (auto& l : lines) {
      if (l == "Mandatory arguments:") { section = 1; ++capM; if (capO) capOrder = false; continue; }
      if (l == "Optional arguments:") { section = 0; ++capO; continue; }
      if (l.size() > 3 && l.compare(0, 3, "   ") == 0 && l[3] != ' ') {
         Entry e;
         e.section = section;
         size_t p = l.find(' ', 3);
         e.key = l.substr(3, p == std::string::npos ? std::string::npos : p - 3);
         if (p != std::string::npos) e.words = wordsOf(l.substr(p));
         found.push_back(e);
      } else if (!l.empty() && l[0] == ' ' && !found.empty()) {
         for (auto& w : wordsOf(l)) found.back().words.push_back(w);
      }
   }
   // expected, from the real objects
   std::vector<const ArgRec*> exp[2];
   for (auto& a : st->args) {
      if (!a.added) continue;
      const bool mand = a.obj && a.obj->isMandatory();
      const bool hid = a.obj && a.obj->isHidden();
      const bool dep = a.obj && a.obj->isDeprecated();
      if (hid && !st->printHidden) continue;
      if (dep && !st->printDepr) continue;
      if (st->contents == 1 && a.chr == 0) continue;
      if (st->contents == 2 && a.word.empty()) continue;
      exp[mand ? 1 : 0].push_back(&a);
   }
   std::vector<const ArgRec*> order(exp[1]);
   order.insert(order.end(), exp[0].begin(), exp[0].end());
   if (found.size() != order.size()) bad += " count";
   if ((capM == 1) != !exp[1].empty() || capM > 1) bad += " mandatory-caption";
   if ((capO == 1) != !exp[0].empty() || capO > 1) bad += " optional-caption";
   if (!capOrder) bad += " caption-order";
   for (size_t i = 0; i < found.size() && i < order.size(); ++i) {
      const ArgRec& a = *order[i];
      const bool    mand = a.obj && a.obj->isMandatory();
      std::string   key;
      if (st->contents == 1) key = std::string("-") + a.chr;
      else if (st->contents == 2) key = "--" + a.word;
      else if (a.chr && !a.word.empty()) key = std::string("-") + a.chr + ",--" + a.word;
      else if (a.chr) key = std::string("-") + a.chr;
      else key = "--" + a.word;
      if (found[i].key != key) { bad += " key@" + std::to_string(i); break; }
      if (found[i].section != (mand ? 1 : 0)) { bad += " section@" + std::to_string(i); break; }
      Words dw;
      for (auto& w : wordsOf(a.desc)) if (w != "nn") dw.push_back(w);
      const Words& fw = found[i].words;
      if (fw.size() < dw.size() || !std::equal(dw.begin(), dw.end(), fw.begin())) { bad += " description@" + std::to_string(i); break; }
      // notes: the words behind the description
      auto has = [&](const std::string& a1, const std::string& a2) {
         for (size_t k = dw.size(); k < fw.size(); ++k)
            if (fw[k] == a1 && (a2.empty() || (k + 1 < fw.size() && fw[k + 1] == a2))) return true;
         return false;
      };
      if (a.obj) {
         if (has("Default", "value:") != (!mand && a.obj->printDefault())) { bad += " default@" + std::to_string(i); break; }
         if (has("Check:", "") != a.obj->hasCheck()) { bad += " check@" + std::to_string(i); break; }
         if (has("Constraint:", "") != a.obj->hasConstraint()) { bad += " constraint@" + std::to_string(i); break; }
         if (has("[hidden]", "") != a.obj->isHidden()) { bad += " hidden-note@" + std::to_string(i); break; }
         const bool depNote = has("[deprecated]", "") || has("[replaced", "by");
         if (depNote != a.obj->isDeprecated()) { bad += " deprecated-note@" + std::to_string(i); break; }
      }
   }
   return bad;
}

std::string evalArgs(const std::vector<std::string>& words) {
   std::vector<std::string> store;
   store.push_back("prog");
   for (auto& w : words) store.push_back(w);
   std::vector<char*> argv;
   for (auto& s : store) argv.push_back(const_cast<char*>(s.c_str()));
   argv.push_back(nullptr);
   return vh::guarded([&] { st->ah->evalArguments(static_cast<int>(store.size()), argv.data()); });
}

std::vector<std::vector<std::string>> history;   // begin/arg/linelen lines of the current case
bool                                  queried = false;

std::string step1(const std::vector<std::string>& t) {
   if (t.size() < 2 || t[0] != "us") return "bad-op";
   if (t[1] == "begin" && t.size() == 3) {
      delete st;
      st = new State;
      std::string fl = vh::kv(t, "flags", "x");
      if (fl == "x") return "bad-op";
      int fs = Handler::hfUsageCont;
      bool harg = false, ahid = false, adep = false, ush = false, ulo = false;
      if (fl != "-") {
         std::istringstream is(fl);
         std::string        f;
         while (std::getline(is, f, ',')) {
            if (f == "hshort") { fs |= Handler::hfHelpShort; st->hshort = true; }
            else if (f == "hlong") { fs |= Handler::hfHelpLong; st->hlong = true; }
            else if (f == "harg") { fs |= Handler::hfHelpArg; harg = true; }
            else if (f == "ahidden") { fs |= Handler::hfArgHidden; ahid = true; }
            else if (f == "adepr") { fs |= Handler::hfArgDeprecated; adep = true; }
            else if (f == "ushort") { fs |= Handler::hfUsageShort; ush = true; }
            else if (f == "ulong") { fs |= Handler::hfUsageLong; ulo = true; }
            else if (f == "uhidden") { fs |= Handler::hfUsageHidden; st->printHidden = st->uhidden = true; }
            else if (f == "udepr") { fs |= Handler::hfUsageDeprecated; st->printDepr = st->udepr = true; }
            else if (f == "noabbr") fs |= Handler::hfNoAbbr;
            else return "bad-op";
         }
      }
      st->flagset = fs;
      st->out.reset(new std::ostringstream);
      st->err.reset(new std::ostringstream);
      const std::string thrown = vh::guarded([&] { st->ah.reset(new Handler(*st->out, *st->err, fs)); });
      if (!thrown.empty()) return thrown;
      // the standard arguments, in the order handleStartFlags()/the constructor define them (oracle only)
      if (st->hshort || st->hlong) stdArg(st->hshort ? 'h' : 0, st->hlong ? "help" : "", "Prints the program usage.");
      if (harg) stdArg(0, "help-arg", "Prints the usage for the given argument.");
      if (adep) stdArg(0, "print-deprecated", "Also print deprecated and replaced arguments in the usage.");
      if (ush) stdArg(0, "help-short", "Only print arguments with their short key in the usage.");
      if (ulo) stdArg(0, "help-long", "Only print arguments with their long key in the usage.");
      if (ahid) stdArg(0, "print-hidden", "Also print hidden arguments in the usage.");
      return "ok";
   }
   if (!st || !st->ah) return "bad-op";
   if (t[1] == "arg") {
      const std::string key = vh::kv(t, "key", ""), kind = vh::kv(t, "kind", "");
      std::string       desc, repl;
      if (key.empty() || !vh::hexDecodeStr(vh::kv(t, "desc", "x"), desc)) return "bad-op";
      const std::string value = vh::kv(t, "value", "");
      const std::string dflt = vh::kv(t, "default", "");
      const bool        hasRepl = !vh::kv(t, "replaced", "").empty();
      if (hasRepl && !vh::hexDecodeStr(vh::kv(t, "replaced", ""), repl)) return "bad-op";
      const std::string checks = vh::kv(t, "check", "");
      const std::string req = vh::kv(t, "requires", ""), excl = vh::kv(t, "excludes", "");
      for (size_t i = 2; i < t.size(); ++i) {
         const std::string k = t[i].substr(0, t[i].find('='));
         if (k != "key" && k != "kind" && k != "value" && k != "default" && k != "mandatory" && k != "hidden"
             && k != "deprecated" && k != "replaced" && k != "check" && k != "requires" && k != "excludes" && k != "desc")
            return "bad-op";
      }
      for (const char* b : {"mandatory", "hidden", "deprecated", "default"}) {
         const std::string v = vh::kv(t, b, "");
         if (!v.empty() && v != "0" && v != "1") return "bad-op";
      }
      // parse the checks first: a malformed line must not leave a half-built argument
      struct Chk { std::string kind; int a, b; };
      std::vector<Chk> chks;
      if (!checks.empty()) {
         std::istringstream is(checks);
         std::string        c;
         while (std::getline(is, c, ';')) {
            std::istringstream cs(c);
            std::string        k, a, b;
            std::getline(cs, k, ':'); std::getline(cs, a, ':'); std::getline(cs, b, ':');
            if (k == "lower" || k == "upper") { if (!isNum(a) || !b.empty()) return "bad-op"; chks.push_back({k, std::stoi(a), 0}); }
            else if (k == "range") { if (!isNum(a) || !isNum(b)) return "bad-op"; chks.push_back({k, std::stoi(a), std::stoi(b)}); }
            else return "bad-op";
         }
      }
      ArgRec rec;
      rec.desc = desc;
      if (kind == "int") {
         if (!value.empty() && !isNum(value)) return "bad-op";
         st->ints.push_back(value.empty() ? 0 : std::stoi(value));
      } else if (kind == "str") {
         std::string v;
         if (!value.empty() && !vh::hexDecodeStr(value, v)) return "bad-op";
         st->strs.push_back(v);
      } else if (kind == "flag") {
         if (!value.empty()) return "bad-op";
         st->bools.emplace_back(new bool(false));
      } else
         return "bad-op";
      st->args.push_back(rec);
      const size_t idx = st->args.size() - 1;
      const std::string thrown = vh::guarded([&] {
         TypedArgBase* p = nullptr;
         if (kind == "int") p = st->ah->addArgument(key, DEST_VAR(st->ints.back()), desc);
         else if (kind == "str") p = st->ah->addArgument(key, DEST_VAR(st->strs.back()), desc);
         else p = st->ah->addArgument(key, DEST_VAR(*st->bools.back()), desc);
         ArgRec& r = st->args[idx];
         r.obj = p;
         r.chr = p->key().argChar();
         r.word = p->key().argString();
         r.added = true;
         if (!dflt.empty()) p->setPrintDefault(dflt == "1");
         if (vh::kv(t, "mandatory", "") == "1") p->setIsMandatory();
         if (vh::kv(t, "hidden", "") == "1") p->setIsHidden();
         if (vh::kv(t, "deprecated", "") == "1") p->setIsDeprecated();
         if (hasRepl) p->setReplacedBy(repl);
         for (auto& c : chks) {
            if (c.kind == "lower") p->addCheck(celma::prog_args::lower(c.a));
            else if (c.kind == "upper") p->addCheck(celma::prog_args::upper(c.a));
            else p->addCheck(celma::prog_args::range(c.a, c.b));
         }
         if (!req.empty()) p->addConstraint(celma::prog_args::requiresArg(req));
         if (!excl.empty()) p->addConstraint(celma::prog_args::excludes(excl));
      });
      return thrown.empty() ? "ok" : thrown;
   }
   if (t[1] == "linelen" && t.size() == 3) {
      if (!isNum(t[2])) return "bad-op";
      const std::string thrown = vh::guarded([&] { st->ah->setUsageLineLength(std::stoi(t[2])); });
      return thrown.empty() ? "ok" : thrown;
   }
   if (t[1] == "usage") {
      std::vector<std::string> words;
      for (size_t i = 2; i < t.size(); ++i) {
         if (t[i] != "print-hidden" && t[i] != "print-deprecated" && t[i] != "help-short" && t[i] != "help-long")
            return "bad-op";
         words.push_back("--" + t[i]);
      }
      if (!st->hshort && !st->hlong) return "bad-op";
      words.push_back(st->hshort ? "-h" : "--help");
      st->out->str("");
      st->err->str("");
      const std::string thrown = evalArgs(words);
      const std::string text = st->out->str();
      if (!thrown.empty()) return thrown;   // (what was written before the exception is not part of the property)
      for (size_t i = 2; i < t.size(); ++i) {
         // a bool flag argument stores the negation of its destination's value at definition time
         if (t[i] == "print-hidden") st->printHidden = !st->uhidden;
         else if (t[i] == "print-deprecated") st->printDepr = !st->udepr;
         else if (t[i] == "help-short") st->contents = 1;
         else st->contents = 2;
      }
      if (!st->err->str().empty()) return "!! error-output text=" + vh::hexOut(text) + " err=" + vh::hexOut(st->err->str());
      const std::string bad = oracle(text);
      if (!bad.empty()) return "!!" + bad + " text=" + vh::hexOut(text);
      return "ok text=" + vh::hexOut(text);
   }
   if (t[1] == "helparg" && t.size() == 3) {
      st->out->str("");
      st->err->str("");
      const std::string thrown = evalArgs({"--help-arg", t[2]});
      if (!thrown.empty()) return thrown;
      return "ok out=" + vh::hexOut(st->out->str()) + " err=" + vh::hexOut(st->err->str());
   }
   return "bad-op";
}

/// every standard argument can be used once per Handler (cardinality): each query runs on a Handler that
/// is rebuilt from the case's configuration lines, so that queries are independent of each other
std::string step(const std::vector<std::string>& t, const std::string&) {
   if (t.size() == 2 && t[0] == "case") {
      delete st;
      st = nullptr;
      history.clear();
      queried = false;
      return "ok";
   }
   if (t.size() < 2 || t[0] != "us") return "bad-op";
   const bool query = (t[1] == "usage" || t[1] == "helparg");
   if (t[1] == "begin") { history.clear(); queried = false; }
   if (queried) {
      for (auto& h : history) step1(h);
      queried = false;
   }
   const std::string res = step1(t);
   if (query) queried = true;
   else if (res != "bad-op") history.push_back(t);
   return res;
}

}  // namespace

int main() { return vh::run(step); }
