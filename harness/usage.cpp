// correspondence harness for the usage listing of celma::prog_args::Handler (C18)
//
// Drives real Handler objects (flag hfUsageCont, output and error output into string streams): a main handler
// and any number of sub-group handlers constructed with Handler( main_ah, flags):
//
//   us begin flags=<f1,f2,..|->      new main Handler; flags: hshort hlong harg ahidden adepr ushort ulong
//                                    uhidden udepr noabbr (hfUsageCont is always set)       -> ok
//   us sub flags=<f1,f2,..|->        new Handler( main, flags): sub-group handler number 0, 1, ..             -> ok
//   us arg key=<spec> kind=int|flag|str [value=<int|hex>] [default=0|1] [mandatory=1] [hidden=1]
//          [deprecated=1] [replaced=<hex>] [check=lower:N;upper:N;range:A:B] [requires=<k>] [excludes=<k>]
//          desc=<hex>                main.addArgument() + the modifiers in exactly this order -> ok | throw <class>
//   us subarg k=<i> key=... (as arg) sub_i.addArgument() + modifiers                          -> ok | throw <class>
//   us group k=<i> key=<spec> [default= mandatory= hidden= deprecated= replaced= check= requires= excludes=]
//          desc=<hex>                main.addArgument( key, sub_i, desc) + modifiers (a sub-group handler is
//                                    attached once)                                           -> ok | throw <class>
//   us linelen <n>                   main.setUsageLineLength()                                -> ok | throw <class>
//   us sublinelen k=<i> <n>          sub_i.setUsageLineLength()                               -> ok | throw <class>
//   us usage [print-hidden] [print-deprecated] [help-short] [help-long]
//                                    main.evalArguments( prog --<word>.. -h|--help): the standard arguments switch
//                                    the usage parameters, the help argument prints the usage
//                                    -> ok text=<hex> | throw <class>
//                                    -> !! <failed clauses> text=<hex>   (membership oracle on the real text alone)
//   us subusage k=<i> [pre=<w,w>] [in=<w,w>]
//                                    main.evalArguments( prog --<pre>.. <-g|--group> --<in>.. -h|--help): the
//                                    standard arguments of the main handler, the sub-group argument, standard
//                                    arguments of the sub-group handler, then ITS help argument; same answers,
//                                    the oracle is evaluated on the sub-group's listing
//   us helparg <key>                 evalArguments( prog --help-arg <key>)     -> ok out=<hex> err=<hex> | throw <class>
//   us helparg <gkey>/<key>          the sub-group form of --help-arg on the main handler (same answers)
//   us subhelparg k=<i> <key>        evalArguments( prog <-g|--group> --help-arg <key>): help-arg of sub_i
//
// An answer is `ok` when the handler that was asked finished its usage / help (Handler::usagePrinted()); an
// exception of the main handler's final checks afterwards (e.g. a mandatory argument of the main handler that
// was not used on this command line) belongs to the evaluation, not to the listing.
//
// The oracle parses the usage text back (caption lines, entry lines = 3 blanks + non-blank, everything else
// belongs to the entry above; a line that is none of these, not empty and not the "Usage:" head is reported as
// "other-line") and checks what C18 states, against the flags read back from the real argument
// objects (isMandatory()/isHidden()/isDeprecated()/key()) and the display settings that were REQUESTED (constructor
// flags of the main handler, hfUsageDeprecated of a sub-group handler, standard arguments on the command line):
// see design_notes/usage.md.
#include "common.hpp"

#include <deque>
#include <memory>
#include <sstream>

#include "celma/prog_args.hpp"

using celma::prog_args::Handler;
using celma::prog_args::detail::TypedArgBase;

namespace {

/// Handler::usagePrinted() is protected
struct XHandler : public Handler {
   using Handler::Handler;
   using Handler::usagePrinted;
};

struct ArgRec {
   TypedArgBase* obj = nullptr;   // nullptr: standard argument, never hidden/deprecated/mandatory
   char          chr = 0;
   std::string   word;
   std::string   desc;
   bool          added = false;
};

/// one handler: the main one or a sub-group handler
struct Hdl {
   std::unique_ptr<XHandler> ah;
   std::vector<ArgRec>      args;
   bool                     hshort = false, hlong = false, harg = false, ahid = false, adep = false, ush = false, ulo = false;
   bool                     deprValue = true;   // what its --print-deprecated stores (negation of the setting at definition)
   bool                     attached = false;   // sub-group handler: entered by a sub-group argument of the main handler
   std::string              enterKey;           // "-g" / "--group"
};

struct State {
   std::unique_ptr<std::ostringstream> out, err;
   Hdl                                 main;
   std::vector<std::unique_ptr<Hdl>>   subs;
   std::deque<int>                     ints;
   std::deque<std::string>             strs;
   std::deque<std::unique_ptr<bool>>   bools;
   // the display settings requested so far (the oracle's own book-keeping, never read from UsageParams)
   bool                                printHidden = false, printDepr = false, uhidden = false;
   int                                 contents = 0;   // 0 all, 1 short, 2 long
};

State* st = nullptr;

using Words = std::vector<std::string>;

Words wordsOf(const std::string& s) {
   Words       out;
   std::string cur;
   for (char c : s) {
      if (c == ' ' || c == '\n') {
         if (!cur.empty()) out.push_back(cur);
         cur.clear();
      } else
         cur += c;
   }
   if (!cur.empty()) out.push_back(cur);
   return out;
}

std::vector<std::string> linesOf(const std::string& s) {
   std::vector<std::string> out;
   std::string              cur;
   for (char c : s) {
      if (c == '\n') { out.push_back(cur); cur.clear(); }
      else cur += c;
   }
   if (!cur.empty()) out.push_back(cur);
   return out;
}

void stdArg(Hdl& h, char c, const std::string& w, const std::string& d) {
   ArgRec r;
   r.chr = c; r.word = w; r.desc = d; r.added = true;
   h.args.push_back(r);
}

/// the standard arguments, in the order handleStartFlags()/the constructor define them (oracle only)
void stdArgs(Hdl& h) {
   if (h.hshort || h.hlong) stdArg(h, h.hshort ? 'h' : 0, h.hlong ? "help" : "", "Prints the program usage.");
   if (h.harg) stdArg(h, 0, "help-arg", "Prints the usage for the given argument.");
   if (h.adep) stdArg(h, 0, "print-deprecated", "Also print deprecated and replaced arguments in the usage.");
   if (h.ush) stdArg(h, 0, "help-short", "Only print arguments with their short key in the usage.");
   if (h.ulo) stdArg(h, 0, "help-long", "Only print arguments with their long key in the usage.");
   if (h.ahid) stdArg(h, 0, "print-hidden", "Also print hidden arguments in the usage.");
}

/// flags=<..> -> handler flag set; main: hfArgHidden / hfUsageHidden count, sub-group constructor: they are
/// passed on, the constructor ignores them (documented)
bool parseFlags(const std::string& fl, bool isMain, Hdl& h, int& fs, bool& uhid, bool& udep) {
   uhid = udep = false;
   if (fl == "-") return true;
   std::istringstream is(fl);
   std::string        f;
   while (std::getline(is, f, ',')) {
      if (f == "hshort") { fs |= Handler::hfHelpShort; h.hshort = true; }
      else if (f == "hlong") { fs |= Handler::hfHelpLong; h.hlong = true; }
      else if (f == "harg") { fs |= Handler::hfHelpArg; h.harg = true; }
      else if (f == "ahidden") { fs |= Handler::hfArgHidden; if (isMain) h.ahid = true; }
      else if (f == "adepr") { fs |= Handler::hfArgDeprecated; h.adep = true; }
      else if (f == "ushort") { fs |= Handler::hfUsageShort; h.ush = true; }
      else if (f == "ulong") { fs |= Handler::hfUsageLong; h.ulo = true; }
      else if (f == "uhidden") { fs |= Handler::hfUsageHidden; if (isMain) uhid = true; }
      else if (f == "udepr") { fs |= Handler::hfUsageDeprecated; udep = true; }
      else if (f == "noabbr") fs |= Handler::hfNoAbbr;
      else return false;
   }
   return true;
}

bool isNum(const std::string& s) {
   if (s.empty()) return false;
   size_t i = (s[0] == '-') ? 1 : 0;
   if (i == s.size() || s.size() > 9) return false;
   for (; i < s.size(); ++i) if (s[i] < '0' || s[i] > '9') return false;
   return true;
}

struct Entry { int section; std::string key; Words words; };

/// membership oracle, evaluated on the real text and the real argument objects only
std::string oracle(const std::string& text, const Hdl& hdl) {
   std::string bad;
   const auto  lines = linesOf(text);
   std::vector<Entry> found;
   int  section = -1, capM = 0, capO = 0;
   bool capOrder = true;
   for (auto& l : lines) {
      if (l == "Mandatory arguments:") { section = 1; ++capM; if (capO) capOrder = false; continue; }
      if (l == "Optional arguments:") { section = 0; ++capO; continue; }
      if (l.size() > 3 && l.compare(0, 3, "   ") == 0 && l[3] != ' ') {
         Entry e;
         e.section = section;
         size_t p = l.find(' ', 3);
         e.key = l.substr(3, p == std::string::npos ? std::string::npos : p - 3);
         if (p != std::string::npos) e.words = wordsOf(l.substr(p));
         found.push_back(e);
      } else if (!l.empty() && l[0] == ' ' && !found.empty()) {
         for (auto& w : wordsOf(l)) found.back().words.push_back(w);
      }
   }
   // C18_no_other_lines: every line is the "Usage:" head, a caption, an entry line, a continuation line (at
   // least four blanks) directly below an entry line / another continuation line of it, or empty - a line the
   // reader above passes over cannot carry an argument
   {
      bool inEntry = false, other = false;
      for (size_t i = 0; i < lines.size(); ++i) {
         const std::string& l = lines[i];
         if (l == "Mandatory arguments:" || l == "Optional arguments:") inEntry = false;
         else if (l.size() > 3 && l.compare(0, 3, "   ") == 0) {
            if (l[3] != ' ') inEntry = true;
            else if (!inEntry) other = true;
         } else {
            inEntry = false;
            if (!l.empty() && !(i == 0 && l == "Usage:")) other = true;
         }
      }
      if (other) bad += " other-line";
   }
   // expected, from the real objects
   std::vector<const ArgRec*> exp[2];
   for (auto& a : hdl.args) {
      if (!a.added) continue;
      const bool mand = a.obj && a.obj->isMandatory();
      const bool hid = a.obj && a.obj->isHidden();
      const bool dep = a.obj && a.obj->isDeprecated();
      if (hid && !st->printHidden) continue;
      if (dep && !st->printDepr) continue;
      if (st->contents == 1 && a.chr == 0) continue;
      if (st->contents == 2 && a.word.empty()) continue;
      exp[mand ? 1 : 0].push_back(&a);
   }
   std::vector<const ArgRec*> order(exp[1]);
   order.insert(order.end(), exp[0].begin(), exp[0].end());
   if (found.size() != order.size()) bad += " count";
   if ((capM == 1) != !exp[1].empty() || capM > 1) bad += " mandatory-caption";
   if ((capO == 1) != !exp[0].empty() || capO > 1) bad += " optional-caption";
   if (!capOrder) bad += " caption-order";
   for (size_t i = 0; i < found.size() && i < order.size(); ++i) {
      const ArgRec& a = *order[i];
      const bool    mand = a.obj && a.obj->isMandatory();
      std::string   key;
      if (st->contents == 1) key = std::string("-") + a.chr;
      else if (st->contents == 2) key = "--" + a.word;
      else if (a.chr && !a.word.empty()) key = std::string("-") + a.chr + ",--" + a.word;
      else if (a.chr) key = std::string("-") + a.chr;
      else key = "--" + a.word;
      if (found[i].key != key) { bad += " key@" + std::to_string(i); break; }
      if (found[i].section != (mand ? 1 : 0)) { bad += " section@" + std::to_string(i); break; }
      Words dw;
      for (auto& w : wordsOf(a.desc)) if (w != "nn") dw.push_back(w);
      const Words& fw = found[i].words;
      if (fw.size() < dw.size() || !std::equal(dw.begin(), dw.end(), fw.begin())) { bad += " description@" + std::to_string(i); break; }
      // notes: the words behind the description
      auto has = [&](const std::string& a1, const std::string& a2) {
         for (size_t k = dw.size(); k < fw.size(); ++k)
            if (fw[k] == a1 && (a2.empty() || (k + 1 < fw.size() && fw[k + 1] == a2))) return true;
         return false;
      };
      if (a.obj) {
         if (has("Default", "value:") != (!mand && a.obj->printDefault())) { bad += " default@" + std::to_string(i); break; }
         if (has("Check:", "") != a.obj->hasCheck()) { bad += " check@" + std::to_string(i); break; }
         if (has("Constraint:", "") != a.obj->hasConstraint()) { bad += " constraint@" + std::to_string(i); break; }
         if (has("[hidden]", "") != a.obj->isHidden()) { bad += " hidden-note@" + std::to_string(i); break; }
         const bool depNote = has("[deprecated]", "") || has("[replaced", "by");
         if (depNote != a.obj->isDeprecated()) { bad += " deprecated-note@" + std::to_string(i); break; }
      }
   }
   return bad;
}

std::string evalArgs(const std::vector<std::string>& words) {
   std::vector<std::string> store;
   store.push_back("prog");
   for (auto& w : words) store.push_back(w);
   std::vector<char*> argv;
   for (auto& s : store) argv.push_back(const_cast<char*>(s.c_str()));
   argv.push_back(nullptr);
   return vh::guarded([&] { st->main.ah->evalArguments(static_cast<int>(store.size()), argv.data()); });
}

std::vector<std::vector<std::string>> history;   // configuration lines of the current case
bool                                  queried = false;

bool isIdx(const std::string& s) {
   if (s.empty() || s.size() > 4) return false;
   for (char c : s) if (c < '0' || c > '9') return false;
   return true;
}

/// k=<i> -> sub-group handler i, or nullptr
Hdl* subOf(const std::vector<std::string>& t) {
   const std::string k = vh::kv(t, "k", "");
   if (!isIdx(k)) return nullptr;
   const size_t i = std::stoul(k);
   return i < st->subs.size() ? st->subs[i].get() : nullptr;
}

bool anyPrinted() {
   if (st->main.ah->usagePrinted()) return true;
   for (auto& s : st->subs) if (s->ah->usagePrinted()) return true;
   return false;
}

/// addArgument() + modifiers on handler `h`; `group` != nullptr: the sub-group argument entering that handler
std::string defineArg(Hdl& h, const std::vector<std::string>& t, Hdl* group) {
   const std::string key = vh::kv(t, "key", ""), kind = group ? "group" : vh::kv(t, "kind", "");
   std::string       desc, repl;
   if (key.empty() || !vh::hexDecodeStr(vh::kv(t, "desc", "x"), desc)) return "bad-op";
   if (group && !vh::kv(t, "kind", "").empty()) return "bad-op";
   const std::string value = vh::kv(t, "value", "");
   const std::string dflt = vh::kv(t, "default", "");
   const bool        hasRepl = !vh::kv(t, "replaced", "").empty();
   if (hasRepl && !vh::hexDecodeStr(vh::kv(t, "replaced", ""), repl)) return "bad-op";
   const std::string checks = vh::kv(t, "check", "");
   const std::string req = vh::kv(t, "requires", ""), excl = vh::kv(t, "excludes", "");
   for (size_t i = 2; i < t.size(); ++i) {
      const std::string k = t[i].substr(0, t[i].find('='));
      if (k != "key" && k != "kind" && k != "value" && k != "default" && k != "mandatory" && k != "hidden"
          && k != "deprecated" && k != "replaced" && k != "check" && k != "requires" && k != "excludes" && k != "desc"
          && k != "k")
         return "bad-op";
   }
   for (const char* b : {"mandatory", "hidden", "deprecated", "default"}) {
      const std::string v = vh::kv(t, b, "");
      if (!v.empty() && v != "0" && v != "1") return "bad-op";
   }
   // parse the checks first: a malformed line must not leave a half-built argument
   struct Chk { std::string kind; int a, b; };
   std::vector<Chk> chks;
   if (!checks.empty()) {
      std::istringstream is(checks);
      std::string        c;
      while (std::getline(is, c, ';')) {
         std::istringstream cs(c);
         std::string        k, a, b;
         std::getline(cs, k, ':'); std::getline(cs, a, ':'); std::getline(cs, b, ':');
         if (k == "lower" || k == "upper") { if (!isNum(a) || !b.empty()) return "bad-op"; chks.push_back({k, std::stoi(a), 0}); }
         else if (k == "range") { if (!isNum(a) || !isNum(b)) return "bad-op"; chks.push_back({k, std::stoi(a), std::stoi(b)}); }
         else return "bad-op";
      }
   }
   ArgRec rec;
   rec.desc = desc;
   if (kind == "int") {
      if (!value.empty() && !isNum(value)) return "bad-op";
      st->ints.push_back(value.empty() ? 0 : std::stoi(value));
   } else if (kind == "str") {
      std::string v;
      if (!value.empty() && !vh::hexDecodeStr(value, v)) return "bad-op";
      st->strs.push_back(v);
   } else if (kind == "flag") {
      if (!value.empty()) return "bad-op";
      st->bools.emplace_back(new bool(false));
   } else if (kind == "group") {
      if (!value.empty()) return "bad-op";
   } else
      return "bad-op";
   h.args.push_back(rec);
   const size_t idx = h.args.size() - 1;
   const std::string thrown = vh::guarded([&] {
      TypedArgBase* p = nullptr;
      if (kind == "int") p = h.ah->addArgument(key, DEST_VAR(st->ints.back()), desc);
      else if (kind == "str") p = h.ah->addArgument(key, DEST_VAR(st->strs.back()), desc);
      else if (kind == "flag") p = h.ah->addArgument(key, DEST_VAR(*st->bools.back()), desc);
      else p = h.ah->addArgument(key, *group->ah, desc);
      ArgRec& r = h.args[idx];
      r.obj = p;
      r.chr = p->key().argChar();
      r.word = p->key().argString();
      r.added = true;
      if (group) {
         group->attached = true;
         group->enterKey = r.chr ? std::string("-") + r.chr : "--" + r.word;
      }
      if (!dflt.empty()) p->setPrintDefault(dflt == "1");
      if (vh::kv(t, "mandatory", "") == "1") p->setIsMandatory();
      if (vh::kv(t, "hidden", "") == "1") p->setIsHidden();
      if (vh::kv(t, "deprecated", "") == "1") p->setIsDeprecated();
      if (hasRepl) p->setReplacedBy(repl);
      for (auto& c : chks) {
         if (c.kind == "lower") p->addCheck(celma::prog_args::lower(c.a));
         else if (c.kind == "upper") p->addCheck(celma::prog_args::upper(c.a));
         else p->addCheck(celma::prog_args::range(c.a, c.b));
      }
      if (!req.empty()) p->addConstraint(celma::prog_args::requiresArg(req));
      if (!excl.empty()) p->addConstraint(celma::prog_args::excludes(excl));
   });
   return thrown.empty() ? "ok" : thrown;
}

bool isSwitch(const std::string& w) {
   return w == "print-hidden" || w == "print-deprecated" || w == "help-short" || w == "help-long";
}

bool defines(const Hdl& h, const std::string& w) {
   return (w == "print-hidden" && h.ahid) || (w == "print-deprecated" && h.adep) || (w == "help-short" && h.ush)
          || (w == "help-long" && h.ulo);
}

/// a standard argument of handler `h` was used: the setting that is requested now
void requested(const Hdl& h, const std::string& w) {
   // a bool flag argument stores the negation of its destination's value at definition time
   if (w == "print-hidden") st->printHidden = !st->uhidden;
   else if (w == "print-deprecated") st->printDepr = h.deprValue;
   else if (w == "help-short") st->contents = 1;
   else st->contents = 2;
}

bool splitList(const std::string& s, std::vector<std::string>& out) {
   if (s.empty()) return true;
   std::istringstream is(s);
   std::string        w;
   while (std::getline(is, w, ',')) { if (!isSwitch(w)) return false; out.push_back(w); }
   return s.back() != ',';
}

bool keyOk(const std::string& k) {
   if (k.empty() || k[0] == '-') return false;
   for (char c : k) if (c == ' ' || c == '/') return false;
   return true;
}

std::string step1(const std::vector<std::string>& t) {
   if (t.size() < 2 || t[0] != "us") return "bad-op";
   if (t[1] == "begin" && t.size() == 3) {
      delete st;
      st = new State;
      std::string fl = vh::kv(t, "flags", "x");
      if (fl == "x") return "bad-op";
      int  fs = Handler::hfUsageCont;
      bool uhid, udep;
      if (!parseFlags(fl, true, st->main, fs, uhid, udep)) { delete st; st = nullptr; return "bad-op"; }
      st->printHidden = st->uhidden = uhid;
      st->printDepr = udep;
      st->main.deprValue = !udep;
      st->out.reset(new std::ostringstream);
      st->err.reset(new std::ostringstream);
      const std::string thrown = vh::guarded([&] { st->main.ah.reset(new XHandler(*st->out, *st->err, fs)); });
      if (!thrown.empty()) return thrown;
      stdArgs(st->main);
      return "ok";
   }
   if (!st || !st->main.ah) return "bad-op";
   if (t[1] == "sub" && t.size() == 3) {
      std::string fl = vh::kv(t, "flags", "x");
      if (fl == "x") return "bad-op";
      std::unique_ptr<Hdl> h(new Hdl);
      int  fs = 0;
      bool uhid, udep;
      if (!parseFlags(fl, false, *h, fs, uhid, udep)) return "bad-op";
      const std::string thrown = vh::guarded([&] { h->ah.reset(new XHandler(static_cast<Handler&>(*st->main.ah), fs)); });
      if (!thrown.empty()) return thrown;
      // hfUsageDeprecated of a sub-group handler requests the display of deprecated arguments (for the tree:
      // the settings are shared); its --print-deprecated is defined after that
      if (udep) st->printDepr = true;
      h->deprValue = !st->printDepr;
      stdArgs(*h);
      st->subs.push_back(std::move(h));
      return "ok";
   }
   if (t[1] == "arg") {
      if (!vh::kv(t, "k", "").empty()) return "bad-op";
      return defineArg(st->main, t, nullptr);
   }
   if (t[1] == "subarg") {
      Hdl* h = subOf(t);
      if (!h) return "bad-op";
      return defineArg(*h, t, nullptr);
   }
   if (t[1] == "group") {
      Hdl* h = subOf(t);
      if (!h || h->attached) return "bad-op";
      return defineArg(st->main, t, h);
   }
   if (t[1] == "linelen" && t.size() == 3) {
      if (!isNum(t[2])) return "bad-op";
      const std::string thrown = vh::guarded([&] { st->main.ah->setUsageLineLength(std::stoi(t[2])); });
      return thrown.empty() ? "ok" : thrown;
   }
   if (t[1] == "sublinelen" && t.size() == 4) {
      Hdl* h = subOf({t[2]});
      if (!h || !isNum(t[3])) return "bad-op";
      const std::string thrown = vh::guarded([&] { h->ah->setUsageLineLength(std::stoi(t[3])); });
      return thrown.empty() ? "ok" : thrown;
   }
   if (t[1] == "usage") {
      std::vector<std::string> words;
      for (size_t i = 2; i < t.size(); ++i) {
         if (!isSwitch(t[i]) || !defines(st->main, t[i])) return "bad-op";
         words.push_back("--" + t[i]);
      }
      if (!st->main.hshort && !st->main.hlong) return "bad-op";
      words.push_back(st->main.hshort ? "-h" : "--help");
      st->out->str("");
      st->err->str("");
      const std::string thrown = evalArgs(words);
      const std::string text = st->out->str();
      if (!thrown.empty()) return thrown;   // (what was written before the exception is not part of the property)
      for (size_t i = 2; i < t.size(); ++i) requested(st->main, t[i]);
      if (!st->err->str().empty()) return "!! error-output text=" + vh::hexOut(text) + " err=" + vh::hexOut(st->err->str());
      const std::string bad = oracle(text, st->main);
      if (!bad.empty()) return "!!" + bad + " text=" + vh::hexOut(text);
      return "ok text=" + vh::hexOut(text);
   }
   if (t[1] == "subusage") {
      Hdl* h = subOf(t);
      if (!h || !h->attached || (!h->hshort && !h->hlong)) return "bad-op";
      for (size_t i = 2; i < t.size(); ++i) {
         const std::string k = t[i].substr(0, t[i].find('='));
         if (k != "k" && k != "pre" && k != "in") return "bad-op";
      }
      std::vector<std::string> pre, in, words;
      if (!splitList(vh::kv(t, "pre", ""), pre) || !splitList(vh::kv(t, "in", ""), in)) return "bad-op";
      for (auto& w : pre) { if (!defines(st->main, w)) return "bad-op"; words.push_back("--" + w); }
      words.push_back(h->enterKey);
      for (auto& w : in) { if (w == "print-hidden" || !defines(*h, w)) return "bad-op"; words.push_back("--" + w); }
      words.push_back(h->hshort ? "-h" : "--help");
      st->out->str("");
      st->err->str("");
      const std::string thrown = evalArgs(words);
      const std::string text = st->out->str();
      // the sub-group handler finished its usage; what the main handler's final checks say afterwards
      // (mandatory arguments of the main handler not used here) is not part of the listing
      if (!h->ah->usagePrinted()) return thrown.empty() ? "!! no-usage text=" + vh::hexOut(text) : thrown;
      for (auto& w : pre) requested(st->main, w);
      for (auto& w : in) requested(*h, w);
      if (!st->err->str().empty()) return "!! error-output text=" + vh::hexOut(text) + " err=" + vh::hexOut(st->err->str());
      const std::string bad = oracle(text, *h);
      if (!bad.empty()) return "!!" + bad + " text=" + vh::hexOut(text);
      return "ok text=" + vh::hexOut(text);
   }
   if (t[1] == "helparg" && t.size() == 3) {
      if (!st->main.harg) return "bad-op";
      const size_t sl = t[2].find('/');
      if (sl == std::string::npos) { if (!keyOk(t[2])) return "bad-op"; }
      else if (!keyOk(t[2].substr(0, sl)) || !keyOk(t[2].substr(sl + 1))) return "bad-op";
      st->out->str("");
      st->err->str("");
      const std::string thrown = evalArgs({"--help-arg", t[2]});
      if (!thrown.empty() && !anyPrinted()) return thrown;
      return "ok out=" + vh::hexOut(st->out->str()) + " err=" + vh::hexOut(st->err->str());
   }
   if (t[1] == "subhelparg" && t.size() == 4) {
      Hdl* h = subOf({t[2]});
      if (!h || !h->attached || !h->harg || !keyOk(t[3])) return "bad-op";
      st->out->str("");
      st->err->str("");
      const std::string thrown = evalArgs({h->enterKey, "--help-arg", t[3]});
      if (!h->ah->usagePrinted()) return thrown.empty() ? "!! no-help out=" + vh::hexOut(st->out->str()) : thrown;
      return "ok out=" + vh::hexOut(st->out->str()) + " err=" + vh::hexOut(st->err->str());
   }
   return "bad-op";
}

/// every standard argument can be used once per Handler (cardinality): each query runs on a Handler that
/// is rebuilt from the case's configuration lines, so that queries are independent of each other
std::string step(const std::vector<std::string>& t, const std::string&) {
   if (t.size() == 2 && t[0] == "case") {
      delete st;
      st = nullptr;
      history.clear();
      queried = false;
      return "ok";
   }
   if (t.size() < 2 || t[0] != "us") return "bad-op";
   const bool query = (t[1] == "usage" || t[1] == "helparg" || t[1] == "subusage" || t[1] == "subhelparg");
   if (t[1] == "begin") { history.clear(); queried = false; }
   if (queried) {
      for (auto& h : history) step1(h);
      queried = false;
   }
   const std::string res = step1(t);
   if (query) queried = true;
   else if (res != "bad-op") history.push_back(t);
   return res;
}

}  // namespace

int main() { return vh::run(step); }
