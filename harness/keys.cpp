// correspondence harness for the argument keys and the argument table (C05)
//   keys add <hex spec>              ArgumentKey( spec), then ArgumentContainer::addArgument() with a
//                                    real handler object  -> ok idx=<n> | throw <class>
//   keys addsub <hex spec>           a sub-group argument of the same handler (its second container,
//                                    Handler::mSubGroupArgs): every specification accepted so far is replayed on a
//                                    scratch Handler (plain ones, then sub-group ones), then
//                                    Handler::addArgument( spec, Handler& subGroup, desc) -> ok idx=<n> | throw <class>
//                                    <n> = the GLOBAL definition index (plain and sub-group arguments counted
//                                    together); once a sub-group argument exists `keys add` asks the scratch Handler
//                                    first (the other container is checked by Handler::addArgument only)
//   keys find <0|1> <hex key>        ArgumentKey( key), ArgumentContainer( abbr)::findArg()  (plain table only)
//                                    -> ok <idx> | ok none | throw <class>
//   keys findc <0|1> <hex char>      the same with ArgumentKey( char)
//   keys word <0|1> <hex word>       the command-line path: a fresh Handler (hfNoAbbr or not) receives every
//                                    accepted specification with an int destination (a sub-group specification: with
//                                    a Handler sub( h, 0) that has one positional int argument), then
//                                    evalArguments( {prog, word, "7"}) -> ok <global idx of the destination that holds 7>
//                                    | ok none ("Unknown argument") | throw <class>
//   keys parse <hex spec>            -> ok short=<hex|-> long=<hex|-> str=<hex of operator<<>
//   keys cmp <hex spec> <hex spec>   -> ok eq=. mismatch=. sw=. lt=.
// Two containers (abbreviations allowed / not allowed, the flag is a constructor argument) receive the
// same arguments.
#include "common.hpp"
#include <deque>
#include <map>
#include <memory>
#include <sstream>
#include "celma/prog_args/destination.hpp"
#include "celma/prog_args/detail/argument_container.hpp"
#include "celma/prog_args/detail/argument_key.hpp"
#include "celma/prog_args/detail/typed_arg_base.hpp"
#include "celma/prog_args/handler.hpp"

using celma::prog_args::detail::ArgumentContainer;
using celma::prog_args::detail::ArgumentKey;
using celma::prog_args::detail::TypedArgBase;

struct Tables {
   // destination variables of the handler objects (one per argument, stable addresses)
   std::vector<std::unique_ptr<int>> vars;
   std::unique_ptr<ArgumentContainer> abbr, noabbr;
   std::map<const TypedArgBase*, size_t> indexA, indexN;
   size_t count = 0;                 // global definition index of the next accepted argument
   // the accepted specifications with their global index, in definition order of their container
   std::vector<std::pair<std::string, size_t>> specs;      // plain arguments
   std::vector<std::pair<std::string, size_t>> subspecs;   // sub-group arguments
   // the specifications that were REFUSED (true = as a sub-group argument): a caller that catches the exception
   // goes on using the handler, so every real Handler below also makes these attempts (each must be refused
   // again and must leave nothing behind — seeded change C05-5: the refused argument stayed registered)
   std::vector<std::pair<std::string, bool>> refused;
   Tables() : abbr(new ArgumentContainer(true)), noabbr(new ArgumentContainer(false)) {}
};

static std::string keyFields(const ArgumentKey& k) {
   std::ostringstream os;
   os << k;
   std::string sh;
   if (k.argChar() != '\0') sh.assign(1, k.argChar());
   return "short=" + vh::hexOut(sh) + " long=" + vh::hexOut(k.argString()) + " str=" + vh::hexOut(os.str());
}

// a real Handler with every accepted specification: the plain arguments get an int destination each, every
// sub-group argument a Handler sub( h, 0) with one positional int argument
struct Filled {
   std::vector<std::unique_ptr<int>> dest;     // one per argument, plain ones first
   std::vector<size_t> global;                 // global definition index of dest[i]
   std::deque<celma::prog_args::Handler> subs; // the sub-group handlers must outlive their use (stable addresses)
   std::deque<int> scratch;                    // destinations of the refused attempts
};

// returns "" or a line starting with "!!"
static std::string fill(celma::prog_args::Handler& h, const Tables& T, Filled& f) {
   for (auto const& sp : T.specs) {
      f.dest.emplace_back(new int(0));
      f.global.push_back(sp.second);
      try { h.addArgument(sp.first, celma::prog_args::destination(*f.dest.back(), "d"), "d"); }
      catch (const std::exception& e) {
         return std::string("!! Handler::addArgument refused a specification the container accepted: ") + e.what();
      }
   }
   for (auto const& sp : T.subspecs) {
      f.dest.emplace_back(new int(0));
      f.global.push_back(sp.second);
      try {
         f.subs.emplace_back(h, 0);
         f.subs.back().addArgument("-", celma::prog_args::destination(*f.dest.back(), "d"), "d");
         h.addArgument(sp.first, f.subs.back(), "d");
      }
      catch (const std::exception& e) {
         return std::string("!! Handler::addArgument refused a sub-group specification it accepted before: ") + e.what();
      }
   }
   // the refused attempts of the history, after the accepted definitions (what they clash with is still there)
   for (auto const& r : T.refused) {
      bool accepted = false;
      try {
         f.scratch.push_back(0);
         if (r.second) {
            f.subs.emplace_back(h, 0);
            f.subs.back().addArgument("-", celma::prog_args::destination(f.scratch.back(), "d"), "d");
            h.addArgument(r.first, f.subs.back(), "d");
         } else {
            h.addArgument(r.first, celma::prog_args::destination(f.scratch.back(), "d"), "d");
         }
         accepted = true;
      }
      catch (...) {}
      if (accepted) return "!! a specification that was refused is accepted when the same definitions are repeated";
   }
   return "";
}

int main() {
   std::unique_ptr<Tables> T(new Tables);
   return vh::run([&](const std::vector<std::string>& t, const std::string&) -> std::string {
      if (t.size() == 2 && t[0] == "case") { T.reset(new Tables); return "ok"; }
      if (t.size() < 2 || t[0] != "keys") return "bad-op";
      const std::string& op = t[1];
      std::string out;
      if (op == "add" && t.size() == 3) {
         std::string spec;
         if (!vh::hexDecodeStr(t[2], spec)) return "bad-op";
         std::string thrown = vh::guarded([&] {
            const ArgumentKey key(std::string(spec.data(), spec.size()));
            std::string viaHandler;
            const bool haveSub = !T->subspecs.empty();
            if (haveSub) {
               // the sub-group container is asked by Handler::addArgument only: scratch Handler first
               celma::prog_args::Handler h(0);
               Filled f;
               out = fill(h, *T, f);
               if (!out.empty()) return;
               int d = 0;
               viaHandler = vh::guarded([&] { h.addArgument(spec, celma::prog_args::destination(d, "d"), "d"); });
               if (!viaHandler.empty()) {                                   // refused (or a `!!` line)
                  if (viaHandler.rfind("!!", 0) != 0) T->refused.emplace_back(spec, false);
                  out = viaHandler; return;
               }
            }
            // both containers must take the same decision
            std::string ra, rn;
            T->vars.emplace_back(new int(0));
            int& v1 = *T->vars.back();
            T->vars.emplace_back(new int(0));
            int& v2 = *T->vars.back();
            TypedArgBase* ha = celma::prog_args::destination(v1, "v1");
            TypedArgBase* hn = celma::prog_args::destination(v2, "v2");
            ra = vh::guarded([&] { T->abbr->addArgument(ha, key); });      // takes ownership, also when it throws
            rn = vh::guarded([&] { T->noabbr->addArgument(hn, key); });
            if (ra != rn) { out = "!! containers disagree: " + ra + " / " + rn; return; }
            if (haveSub && !ra.empty()) { out = "!! the Handler accepted a plain specification the container refuses: " + ra; return; }
            if (!ra.empty()) { T->refused.emplace_back(spec, false); out = ra; return; }
            T->indexA[ha] = T->count;
            T->indexN[hn] = T->count;
            out = "ok idx=" + std::to_string(T->count);
            T->specs.emplace_back(spec, T->count);
            ++T->count;
         });
         return thrown.empty() ? out : thrown;
      }
      if (op == "addsub" && t.size() == 3) {
         std::string spec;
         if (!vh::hexDecodeStr(t[2], spec)) return "bad-op";
         std::string thrown = vh::guarded([&] {
            celma::prog_args::Handler h(0);
            Filled f;
            out = fill(h, *T, f);
            if (!out.empty()) return;
            celma::prog_args::Handler sub(h, 0);
            std::string r = vh::guarded([&] { h.addArgument(spec, sub, "d"); });
            if (!r.empty()) { if (r.rfind("!!", 0) != 0) T->refused.emplace_back(spec, true); out = r; return; }
            out = "ok idx=" + std::to_string(T->count);
            T->subspecs.emplace_back(spec, T->count);
            ++T->count;
         });
         return thrown.empty() ? out : thrown;
      }
      if ((op == "find" || op == "findc") && t.size() == 4 && (t[2] == "0" || t[2] == "1")) {
         std::string ks;
         if (!vh::hexDecodeStr(t[3], ks)) return "bad-op";
         if (op == "findc" && ks.size() != 1) return "bad-op";
         const bool abbr = t[2] == "1";
         std::string thrown = vh::guarded([&] {
            const ArgumentKey key = (op == "findc") ? ArgumentKey(ks[0]) : ArgumentKey(std::string(ks.data(), ks.size()));
            const TypedArgBase* h = (abbr ? T->abbr : T->noabbr)->findArg(key);
            if (h == nullptr) { out = "ok none"; return; }
            auto& idx = abbr ? T->indexA : T->indexN;
            auto it = idx.find(h);
            if (it == idx.end()) { out = "!! findArg returned an object that was never added"; return; }
            out = "ok " + std::to_string(it->second);
         });
         return thrown.empty() ? out : thrown;
      }
      if (op == "word" && t.size() == 4 && (t[2] == "0" || t[2] == "1")) {
         std::string word;
         if (!vh::hexDecodeStr(t[3], word)) return "bad-op";
         if (word.find('\0') != std::string::npos) return "bad-op";   // argv words are C strings
         const bool abbr = t[2] == "1";
         try {
            celma::prog_args::Handler h(abbr ? 0 : celma::prog_args::Handler::hfNoAbbr);
            Filled f;
            const std::string bad = fill(h, *T, f);
            if (!bad.empty()) return bad;
            auto const& dest = f.dest;
            std::string prog = "prog", seven = "7";
            char* argv[] = { &prog[0], &word[0], &seven[0], nullptr };
            h.evalArguments(3, argv);
            std::string hit;
            for (size_t i = 0; i < dest.size(); ++i)
               if (*dest[i] == 7) {
                  if (!hit.empty()) return "!! two destinations received the value";
                  hit = std::to_string(f.global[i]);
               }
            if (hit.empty()) return "!! accepted, but no destination received the value";
            return "ok " + hit;
         }
         catch (const std::invalid_argument& e) {
            return std::string(e.what()).rfind("Unknown argument '", 0) == 0 ? "ok none" : "throw invalid_argument";
         }
         catch (...) {
            return vh::guarded([] { throw; });
         }
      }
      if (op == "parse" && t.size() == 3) {
         std::string spec;
         if (!vh::hexDecodeStr(t[2], spec)) return "bad-op";
         std::string thrown = vh::guarded([&] {
            const ArgumentKey key(std::string(spec.data(), spec.size()));
            out = "ok " + keyFields(key);
         });
         return thrown.empty() ? out : thrown;
      }
      if (op == "cmp" && t.size() == 4) {
         std::string a, b;
         if (!vh::hexDecodeStr(t[2], a) || !vh::hexDecodeStr(t[3], b)) return "bad-op";
         std::string thrown = vh::guarded([&] {
            const ArgumentKey ka(std::string(a.data(), a.size()));
            const ArgumentKey kb(std::string(b.data(), b.size()));
            out = std::string("ok eq=") + (ka == kb ? "1" : "0") + " mismatch=" + (ka.mismatch(kb) ? "1" : "0")
                  + " sw=" + (ka.startsWith(kb) ? "1" : "0") + " lt=" + (ka < kb ? "1" : "0");
         });
         return thrown.empty() ? out : thrown;
      }
      return "bad-op";
   });
}
