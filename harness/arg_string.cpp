// correspondence harness for celma::appl::ArgString2Array (C07 splitting half, C04 allocation)
//   as split  <hex string>                 -> ArgString2Array( cmdLine)            (argv[0] = first word)
//   as split2 <hex string> <hex name|null> -> ArgString2Array( argstring, progname)
// result: ok argc=<n> <word hex>...   (the C strings argv[0..argc) as a reader of argv sees them)
#include "common.hpp"
#include <memory>
#include "celma/appl/arg_string_2_array.hpp"

using celma::appl::make_arg_array;

static std::string show(const celma::appl::ArgString2Array& a) {
   if (a.mArgC < 0 || a.mpArgV == nullptr) return "!! no array: argc=" + std::to_string(a.mArgC);
   std::string out = "ok argc=" + std::to_string(a.mArgC);
   for (int i = 0; i < a.mArgC; ++i) {
      if (a.mpArgV[i] == nullptr) return "!! argv[" + std::to_string(i) + "] is null";
      out += " " + vh::hexOut(std::string(a.mpArgV[i]));   // strlen: ASan sees an unterminated copy
   }
   if (a.mpArgV[a.mArgC] != nullptr) return "!! argv[argc] is not null";
   return out;
}

int main() {
   return vh::run([&](const std::vector<std::string>& t, const std::string&) -> std::string {
      if (t.size() == 2 && t[0] == "case") return "ok";
      if (t.size() == 3 && t[0] == "as" && t[1] == "split") {
         std::string s;
         if (!vh::hexDecodeStr(t[2], s)) return "bad-op";
         std::string out;
         std::string thrown = vh::guarded([&] {
            // exact-size heap copy so that a read past the end of the input is seen by ASan
            const std::string exact(s.data(), s.size());
            auto a = make_arg_array(exact);
            out = show(a);
         });
         return thrown.empty() ? out : thrown;
      }
      if (t.size() == 4 && t[0] == "as" && t[1] == "split2") {
         std::string s, p;
         if (!vh::hexDecodeStr(t[2], s)) return "bad-op";
         const bool null_name = t[3] == "null";
         if (!null_name && !vh::hexDecodeStr(t[3], p)) return "bad-op";
         std::string out;
         std::string thrown = vh::guarded([&] {
            const std::string exact(s.data(), s.size());
            // the program name is a C string: exact allocation of strlen + 1 bytes
            std::unique_ptr<char[]> name(new char[std::strlen(p.c_str()) + 1]);
            std::strcpy(name.get(), p.c_str());
            auto a = make_arg_array(exact, null_name ? nullptr : name.get());
            out = show(a);
         });
         return thrown.empty() ? out : thrown;
      }
      return "bad-op";
   });
}
