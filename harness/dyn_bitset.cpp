// correspondence harness for celma::container::DynamicBitset and its iterators (C12)
//
// protocol (component word `dbs`, names are arbitrary tokens, bit strings are LSB first, `-` = empty):
//   dbs new <n> <bits>          construct from a vector<bool>          -> state line
//   dbs newn <n> <k>            DynamicBitset( k)                       -> state line
//   dbs obs <n>                                                       -> state line
//   dbs setall|resetall|flipall <n>                                   -> state line
//   dbs set <n> <pos> <0|1> | reset <n> <pos> | flip <n> <pos> | idxset <n> <pos> <0|1> | resize <n> <k> <0|1>  -> state line
//   dbs idx <n> <pos>           bool b = dbs[pos] (non-const, grows)   -> ok val=b size=.. bits=..
//   dbs test <n> <pos> | cidx <n> <pos> (const operator[])                -> ok 0|1 / throw out_of_range
//   dbs eq <n> <m>                                                    -> ok 0|1
//   dbs and=|or=|xor= <n> <m> ; shl=|shr= <n> <k>                     -> state line of <n>
//   dbs and|or|xor <n> <m> <d> ; shl|shr <n> <k> <d> ; not <n> <d> ; copy <n> <d> -> state line of <d>
//   dbs fwd|rev <n>             range-for / rbegin..rend, both the non-const and the const flavour -> ok 1,3,5
//   dbs it|rit <n> <script>     a walk of one (reverse) iterator: script = [e] then any of + - p m
//                               (e: start at end()/rend() instead of begin()/rbegin(); + pre-increment, - pre-decrement,
//                               p post-increment, m post-decrement), both flavours -> ok 3,3/1,E,E/E
//                               (position after each operation, `copy/position` for the post forms, E = end()/rend())
//   dbs strc <n> <zero> <one>   to_string< char>( zero, one)                -> ok <string>
//   dbs newbs <n> <bits>        DynamicBitset( std::bitset< N>) with N = number of bits given -> state line
//   dbs asgbs <n> <bits>        <n> = std::bitset< N>                       -> state line
// numbers may be symbolic (@size, @size-1, @size+1, @size*2, @size*3; relative to <n>).
// state line: ok size= bits= str= count= any= none= all= ulong=
//
// Property oracle on the implementation alone ('!!' prefix): a shadow reference bit vector
// (plain std::vector<bool>, operations written directly) receives the same operations; the bits
// must agree after every operation, compound and binary operators must agree, a positional
// operation must leave `pos < size()` (libstdc++'s vector<bool>::operator[] is unchecked, so
// anything else indexed outside the vector), iteration must give the set positions.
#include "common.hpp"
#include <bitset>
#include <map>
#include "celma/container/dynamic_bitset.hpp"

using celma::container::DynamicBitset;
using VB = std::vector<bool>;

static std::map<std::string, DynamicBitset> objs;
static std::map<std::string, VB> refs;

static std::string bitsOf(const DynamicBitset& d) {
   std::string s;
   for (size_t i = 0; i < d.size(); ++i) s += d.test(i) ? '1' : '0';
   return s.empty() ? "-" : s;
}
static std::string bitsOf(const VB& v) {
   std::string s;
   for (bool b : v) s += b ? '1' : '0';
   return s.empty() ? "-" : s;
}
static std::string stateOut(const DynamicBitset& d) {
   std::string ul;
   std::string e = vh::guarded([&] { ul = std::to_string(d.to_ulong()); });
   if (!e.empty()) ul = e.substr(6);
   std::string str = d.to_string();
   return "ok size=" + std::to_string(d.size()) + " bits=" + bitsOf(d) + " str=" + (str.empty() ? "-" : str) +
          " count=" + std::to_string(d.count()) + " any=" + (d.any() ? "1" : "0") + " none=" + (d.none() ? "1" : "0") +
          " all=" + (d.all() ? "1" : "0") + " ulong=" + ul;
}
static bool num(const DynamicBitset& d, const std::string& t, size_t& out) {
   size_t s = d.size();
   if (t == "@size") out = s;
   else if (t == "@size-1") out = s ? s - 1 : 0;
   else if (t == "@size+1") out = s + 1;
   else if (t == "@size*2") out = s * 2;
   else if (t == "@size*3") out = s * 3;
   else {
      if (t.empty() || t.find_first_not_of("0123456789") != std::string::npos) return false;
      out = std::stoull(t);
   }
   return true;
}
static std::string posList(const std::vector<size_t>& v) {
   if (v.empty()) return "-";
   std::string s;
   for (size_t i = 0; i < v.size(); ++i) s += (i ? "," : "") + std::to_string(v[i]);
   return s;
}

// ---- the shadow reference -------------------------------------------------
static void rgrow(VB& r, size_t pos) { if (pos >= r.size()) r.resize((pos + 1) * 3 / 2, false); }
static bool rbit(const VB& r, size_t i) { return i < r.size() ? bool(r[i]) : false; }
static VB rlogic(const VB& a, const VB& b, char op) {
   VB out(op == '&' ? a.size() : std::max(a.size(), b.size()));
   for (size_t i = 0; i < out.size(); ++i)
      out[i] = op == '&' ? (rbit(a, i) && rbit(b, i)) : op == '|' ? (rbit(a, i) || rbit(b, i)) : (rbit(a, i) != rbit(b, i));
   return out;
}
static VB rshl(const VB& a, size_t k) {
   if (a.empty()) return a;
   VB out(k, false);
   out.insert(out.end(), a.begin(), a.end());
   return out;
}
static VB rshr(const VB& a, size_t k) {
   VB out(a.size(), false);
   for (size_t i = 0; i + k < a.size(); ++i) out[i] = a[i + k];
   return out;
}

/// state line of `d`, checked against the shadow `r`
static std::string checked(const DynamicBitset& d, const VB& r, const std::string& extra = "") {
   std::string out = stateOut(d);
   std::string bad = extra;
   if (bad.empty() && bitsOf(d) != bitsOf(r)) bad = "differs from the reference bit vector " + bitsOf(r);
   if (!bad.empty()) return "!! " + bad + "; " + out;
   return out;
}

template <class B> static std::string iterFwd(B& d, std::vector<size_t>& out) {
   return vh::guarded([&] {
      size_t guard = 0;
      for (auto pos : d) {
         out.push_back(pos);
         if (++guard > d.size() + 2) throw std::domain_error("iteration does not terminate");
      }
   });
}
template <class B> static std::string iterRev(B& d, std::vector<size_t>& out) {
   return vh::guarded([&] {
      size_t guard = 0;
      for (auto it = d.rbegin(); it != d.rend(); ++it) {
         out.push_back(*it);
         if (++guard > d.size() + 2) throw std::domain_error("iteration does not terminate");
      }
   });
}

// ---- iterator walks ---------------------------------------------------------
// `rev` selects the reverse iterator; positions are kept as ssize_t in the shadow (-1 = rend(), size = end())
template <class B, class It> static std::string walk(B& d, It it, const It last, bool rev, bool fromEnd, const std::string& script,
                                                     std::string& bad) {
   const ssize_t size = static_cast<ssize_t>(d.size());
   auto nextSet = [&](ssize_t c) { for (ssize_t j = c + 1; j < size; ++j) if (d.test(j)) return j; return size; };
   auto prevSet = [&](ssize_t c) { for (ssize_t j = c - 1; j >= 0; --j) if (d.test(j)) return j; return ssize_t(-1); };
   auto show = [&](const It& i) { return i == last ? std::string("E") : std::to_string(*i); };
   auto showS = [&](ssize_t c) { return c == (rev ? -1 : size) ? std::string("E") : std::to_string(c); };
   // shadow start: begin() = first set position or end(); rbegin() = last set position or rend()
   ssize_t cur = fromEnd ? (rev ? -1 : size) : (rev ? prevSet(size) : nextSet(-1));
   if (show(it) != showS(cur)) bad = "start position " + show(it) + " instead of " + showS(cur);
   std::string out;
   for (char c : script) {
      const ssize_t before = cur;
      const bool up = (c == '+' || c == 'p');
      if (!rev) {   // forward iterator: ++ = next set bit (stays at end()), -- = previous set bit, else end()
         if (up) cur = cur == size ? size : nextSet(cur);
         else { cur = prevSet(cur); if (cur < 0) cur = size; }
      } else {      // reverse iterator: ++ = previous set bit (stays at rend()), -- = next set bit, else rend(); --rend() stays
         if (up) cur = cur < 0 ? -1 : prevSet(cur);
         else if (cur >= 0) { cur = nextSet(cur); if (cur >= size) cur = -1; }
      }
      std::string tok, want;
      if (c == '+') { ++it; tok = show(it); want = showS(cur); }
      else if (c == '-') { --it; tok = show(it); want = showS(cur); }
      else if (c == 'p') { It cp = it++; tok = show(cp) + "/" + show(it); want = showS(before) + "/" + showS(cur); }
      else { It cp = it--; tok = show(cp) + "/" + show(it); want = showS(before) + "/" + showS(cur); }
      if (bad.empty() && tok != want) bad = "after '" + std::string(1, c) + "': " + tok + " instead of " + want;
      out += (out.empty() ? "" : ",") + tok;
   }
   return out.empty() ? "-" : out;
}

template <size_t N> static DynamicBitset fromBitset(const VB& v, DynamicBitset* assignTo) {
   std::bitset<N> bs;
   for (size_t i = 0; i < N; ++i) bs[i] = v[i];
   if (assignTo) { *assignTo = bs; return *assignTo; }
   return DynamicBitset(bs);
}
/// conversion from std::bitset< N>, N = v.size(); false when this N is not instantiated here
static bool viaBitset(const VB& v, DynamicBitset* assignTo, DynamicBitset& out) {
   switch (v.size()) {
#define VH_BS(N) case N: out = fromBitset<N>(v, assignTo); return true;
      VH_BS(0) VH_BS(1) VH_BS(2) VH_BS(3) VH_BS(4) VH_BS(5) VH_BS(6) VH_BS(7) VH_BS(8) VH_BS(9) VH_BS(16) VH_BS(31) VH_BS(32)
      VH_BS(33) VH_BS(63) VH_BS(64) VH_BS(65) VH_BS(70) VH_BS(128)
#undef VH_BS
      default: return false;
   }
}

static std::string step(const std::vector<std::string>& t) {
   if (t.size() == 2 && t[0] == "case") { objs.clear(); refs.clear(); return "ok"; }
   if (t.size() < 3 || t[0] != "dbs") return "bad-op";
   if (t[1] == "new" && t.size() == 4) {
      VB v;
      if (t[3] != "-")
         for (char c : t[3]) { if (c != '0' && c != '1') return "bad-op"; v.push_back(c == '1'); }
      objs.erase(t[2]);
      objs.emplace(t[2], DynamicBitset(v));
      refs[t[2]] = v;
      return checked(objs.at(t[2]), v);
   }
   if (t[1] == "newbs" && t.size() == 4) {
      VB v;
      if (t[3] != "-")
         for (char c : t[3]) { if (c != '0' && c != '1') return "bad-op"; v.push_back(c == '1'); }
      DynamicBitset made(0);
      if (!viaBitset(v, nullptr, made)) return "bad-op";
      objs.erase(t[2]);
      objs.emplace(t[2], made);
      refs[t[2]] = v;
      return checked(objs.at(t[2]), v);
   }
   if (t[1] == "newn" && t.size() == 4) {
      size_t k = std::stoull(t[3]);
      objs.erase(t[2]);
      objs.emplace(t[2], DynamicBitset(k));
      refs[t[2]] = VB(k, false);
      return checked(objs.at(t[2]), refs[t[2]]);
   }
   auto it = objs.find(t[2]);
   if (it == objs.end()) return "bad-op";
   DynamicBitset& d = it->second;
   const DynamicBitset& cd = d;
   VB& r = refs[t[2]];
   const std::string& op = t[1];
   const size_t na = t.size() - 3;
   auto other = [&](const std::string& n) -> const DynamicBitset* { auto o = objs.find(n); return o == objs.end() ? nullptr : &o->second; };
   auto put = [&](const std::string& dst, const DynamicBitset& val, const VB& rv, const std::string& extra = "") {
      objs.erase(dst);
      objs.emplace(dst, val);
      refs[dst] = rv;
      std::string line = checked(objs.at(dst), rv, extra);
      // re-synchronise the shadow after a reported difference so that later operations are still checked
      if (line[0] == '!') { VB s; for (size_t i = 0; i < val.size(); ++i) s.push_back(val.test(i)); refs[dst] = s; }
      return line;
   };
   auto resync = [&](const std::string& line) {
      if (line[0] == '!') { VB s; for (size_t i = 0; i < d.size(); ++i) s.push_back(d.test(i)); r = s; }
      return line;
   };
   std::string err;
   size_t p = 0;

   if (op == "obs" && na == 0) return checked(d, r);
   if (op == "setall" && na == 0) { d.set(); r.assign(r.size(), true); return resync(checked(d, r)); }
   if (op == "resetall" && na == 0) { d.reset(); r.assign(r.size(), false); return resync(checked(d, r)); }
   if (op == "flipall" && na == 0) { d.flip(); r.flip(); return resync(checked(d, r)); }
   if ((op == "set" || op == "idxset") && na == 2) {
      if (!num(d, t[3], p) || (t[4] != "0" && t[4] != "1")) return "bad-op";
      bool val = t[4] == "1";
      err = vh::guarded([&] { if (op == "set") d.set(p, val); else d[p] = val; });
      if (!err.empty()) return err;
      rgrow(r, p); r[p] = val;
      return resync(checked(d, r, p < d.size() ? "" : "position not below size() after " + op + " (indexed outside the vector)"));
   }
   if ((op == "reset" || op == "flip") && na == 1) {
      if (!num(d, t[3], p)) return "bad-op";
      bool old = rbit(r, p);
      err = vh::guarded([&] { if (op == "reset") d.reset(p); else d.flip(p); });
      if (!err.empty()) return err;
      rgrow(r, p); r[p] = op == "reset" ? false : !old;
      return resync(checked(d, r, p < d.size() ? "" : "position not below size() after " + op + " (indexed outside the vector)"));
   }
   if (op == "idx" && na == 1) {
      if (!num(d, t[3], p)) return "bad-op";
      bool val = false;
      err = vh::guarded([&] { val = d[p]; });
      if (!err.empty()) return err;
      bool want = rbit(r, p);
      rgrow(r, p);
      std::string line = "ok val=" + std::string(val ? "1" : "0") + " size=" + std::to_string(d.size()) + " bits=" + bitsOf(d);
      if (p >= d.size()) line = "!! position not below size() after operator[] (indexed outside the vector); " + line;
      else if (val != want || bitsOf(d) != bitsOf(r)) line = "!! differs from the reference bit vector " + bitsOf(r) + "; " + line;
      return resync(line);
   }
   if (op == "resize" && na == 2) {
      if (!num(d, t[3], p) || (t[4] != "0" && t[4] != "1")) return "bad-op";
      d.resize(p, t[4] == "1");
      r.resize(p, t[4] == "1");
      return resync(checked(d, r));
   }
   if ((op == "test" || op == "cidx") && na == 1) {
      if (!num(d, t[3], p)) return "bad-op";
      bool val = false;
      err = vh::guarded([&] { val = op == "test" ? cd.test(p) : cd[p]; });
      if (!err.empty()) return (p < d.size() ? "!! throws for a position below size(); " : "") + err;
      std::string line = std::string("ok ") + (val ? "1" : "0");
      if (p >= d.size()) return "!! no out_of_range for a position not below size() (read outside the vector); " + line;
      if (val != rbit(r, p)) return "!! differs from the reference bit; " + line;
      return line;
   }
   if (op == "eq" && na == 1) {
      auto o = other(t[3]);
      if (!o) return "bad-op";
      bool e = cd == *o;
      std::string line = std::string("ok ") + (e ? "1" : "0");
      if (e != (r == refs[t[3]])) return "!! equality differs from the reference; " + line;
      return line;
   }
   if ((op == "and=" || op == "or=" || op == "xor=") && na == 1) {
      auto o = other(t[3]);
      if (!o) return "bad-op";
      char c = op == "and=" ? '&' : op == "or=" ? '|' : '^';
      VB rv = rlogic(r, refs[t[3]], c);
      DynamicBitset bin = c == '&' ? (cd & *o) : c == '|' ? (cd | *o) : (cd ^ *o);
      if (c == '&') d &= *o; else if (c == '|') d |= *o; else d ^= *o;
      r = rv;
      return resync(checked(d, r, bin == d ? "" : "compound assignment differs from the binary operator " + bitsOf(bin)));
   }
   if ((op == "and" || op == "or" || op == "xor") && na == 2) {
      auto o = other(t[3]);
      if (!o) return "bad-op";
      char c = op == "and" ? '&' : op == "or" ? '|' : '^';
      VB rv = rlogic(r, refs[t[3]], c);
      DynamicBitset bin = c == '&' ? (cd & *o) : c == '|' ? (cd | *o) : (cd ^ *o);
      return put(t[4], bin, rv);
   }
   if ((op == "shl=" || op == "shr=") && na == 1) {
      if (!num(d, t[3], p)) return "bad-op";
      VB rv = op == "shl=" ? rshl(r, p) : rshr(r, p);
      DynamicBitset bin = op == "shl=" ? (cd << p) : (cd >> p);
      if (op == "shl=") d <<= p; else d >>= p;
      r = rv;
      return resync(checked(d, r, bin == d ? "" : "compound assignment differs from the binary operator " + bitsOf(bin)));
   }
   if ((op == "shl" || op == "shr") && na == 2) {
      if (!num(d, t[3], p)) return "bad-op";
      VB rv = op == "shl" ? rshl(r, p) : rshr(r, p);
      DynamicBitset bin = op == "shl" ? (cd << p) : (cd >> p);
      return put(t[4], bin, rv);
   }
   if (op == "not" && na == 1) { VB rv = r; rv.flip(); DynamicBitset n = ~cd; return put(t[3], n, rv); }
   if (op == "copy" && na == 1) { VB rv = r; DynamicBitset n(cd); return put(t[3], n, rv); }
   if (op == "asgbs" && na == 1) {
      VB v;
      if (t[3] != "-")
         for (char c : t[3]) { if (c != '0' && c != '1') return "bad-op"; v.push_back(c == '1'); }
      DynamicBitset res(0);
      if (!viaBitset(v, &d, res)) return "bad-op";
      r = v;
      return resync(checked(d, r));
   }
   if (op == "strc" && na == 2) {
      if (t[3].size() != 1 || t[4].size() != 1) return "bad-op";
      std::string str = cd.to_string<char>(t[3][0], t[4][0]);
      std::string want;
      for (size_t i = r.size(); i-- > 0;) want += r[i] ? t[4][0] : t[3][0];
      std::string line = "ok " + (str.empty() ? std::string("-") : str);
      if (str != want) return "!! to_string( zero, one) differs from the reference " + want + "; " + line;
      return line;
   }
   if ((op == "it" || op == "rit") && na == 1) {
      std::string script = t[3];
      bool fromEnd = !script.empty() && script[0] == 'e';
      if (fromEnd) script = script.substr(1);
      if (script.find_first_not_of("+-pm") != std::string::npos) return "bad-op";
      std::string a, b, bad1, bad2;
      std::string e1 = vh::guarded([&] {
         a = op == "it" ? walk(d, fromEnd ? d.end() : d.begin(), d.end(), false, fromEnd, script, bad1)
                        : walk(d, fromEnd ? d.rend() : d.rbegin(), d.rend(), true, fromEnd, script, bad1); });
      std::string e2 = vh::guarded([&] {
         b = op == "it" ? walk(cd, fromEnd ? cd.end() : cd.begin(), cd.end(), false, fromEnd, script, bad2)
                        : walk(cd, fromEnd ? cd.rend() : cd.rbegin(), cd.rend(), true, fromEnd, script, bad2); });
      if (!e1.empty() || !e2.empty()) return "!! iterator walk throws; " + (e1.empty() ? e2 : e1);
      std::string line = "ok " + a;
      if (a != b) return "!! const and non-const iterator walks differ (" + b + "); " + line;
      if (!bad1.empty()) return "!! iterator walk: " + bad1 + "; " + line;
      return line;
   }
   if ((op == "fwd" || op == "rev") && na == 0) {
      std::vector<size_t> a, b, want;
      std::string e1 = op == "fwd" ? iterFwd(d, a) : iterRev(d, a);
      std::string e2 = op == "fwd" ? iterFwd(cd, b) : iterRev(cd, b);
      for (size_t i = 0; i < d.size(); ++i) if (d.test(i)) want.push_back(i);
      if (op == "rev") want = std::vector<size_t>(want.rbegin(), want.rend());
      if (!e1.empty() || !e2.empty()) return "!! iteration throws; " + (e1.empty() ? e2 : e1);
      std::string line = "ok " + posList(a);
      if (a != b) return "!! const and non-const iteration differ (" + posList(b) + "); " + line;
      if (a != want) return "!! not the set positions " + posList(want) + "; " + line;
      return line;
   }
   return "bad-op";
}

int main() {
   return vh::run([&](const std::vector<std::string>& t, const std::string&) -> std::string { return step(t); });
}
