// Correspondence / oracle harness for property C09: independent argument handlers used concurrently.
//
// One case = one workload: configuration lines build a description of 2..16 threads, each with its
// *own* set of arguments (own destination variables), handler constraints and command line; the
// `run` line
//   1. runs every thread's job alone, sequentially, in this process (the expectation),
//   2. `reps` times: starts all threads, releases them together from a barrier (each with a small
//      perturbed start offset), every thread constructs its own celma::prog_args::Handler, adds its
//      arguments, evaluates its command line and reports destination contents or exception class,
//   3. compares every concurrent result with the sequential one      -> `!! mismatch ...`
//   4. (TSan build) asks the ThreadSanitizer run time whether it reported anything during the run
//                                                                     -> `!! tsan reports=...`
// Lines:
//   arg t=<k> key=<spec> kind=<int|str|flag|vec_int|vec_str|set_int|list_str> [sep=<c>] [check=..]*
//       [mand=1] [multi=1] [unique=1|2] [sort=1] [clear=1] [card=max:n|exact:n|range:a:b]
//       [constr=requires:<key>|excludes:<key>] [fmt=upper|lower]
//   hc t=<k> kind=<all_of|any_of|one_of> spec=<k1;k2..>
//   argv t=<k> <word>...
//   help t=<k>           the thread's handler is created with hfHelpShort | hfUsageCont and streams of its own:
//                        `-h` on its command line prints the usage (Handler::usage(), which starts with
//                        Groups::instance().evaluatedByArgGroups() -- the process-wide Singleton<Groups>);
//                        the usage text is part of the thread's result (`/usage=<length>:<hash>`)
//   bracket t=<k> at=<n>  the thread calls Handler::addBracketHandler() after its first n arguments are defined (n >= number
//                        of arguments: after all of them); without this line odd threads call it first, even threads never
//   group t=<k> handlers=<m> loops=<l> [brackets=<j>] [remove=each|all]
//                        thread k (at most one per case) is a *group thread*: `l` times it obtains m handlers from
//                        Groups::instance().getArgHandler( "g<k>_<j>", 0), defines its arguments on them (argument i on
//                        handler i mod m; handler <j> gets bracket handlers), evaluates its command line through
//                        Groups::evalArguments and removes the handlers (removeArgHandler each / removeAllArgHandler).
//                        It is the only user of the process-wide Groups object; the other threads' handlers are
//                        stand-alone and must not notice it.
//   file t=<k> mode=<argfile|progarg|env> [hold=1]
//                        the thread takes (part of) its arguments from a SOURCE OF ITS OWN beside its command line:
//                        argfile: Handler::addArgumentFile( "arg-file"), the word `@file` on its command line stands for the
//                                 path of the thread's own file;  progarg: handler flag hfReadProgArg, argv[0] = prog_t<k>, the
//                                 file is $HOME/.progargs/prog_t<k>.pa (HOME = a scratch directory of this process);
//                        env: handler flag hfEnvVarArgs, argv[0] = prog_t<k>, the variable is PROG_T<k>.
//                        While such a source is evaluated the handler is in another "read mode" (Handler::mReadMode, set by
//                        readArgumentFile() / checkReadEnvVarArgs(), read by handleIdentifiedArg(): no cardinality check
//                        for values from a file / the environment) -- state of THAT handler, no other thread may notice.
//                        hold=1: the handler has a callable argument `--hold`; where it stands in the file / variable the
//                        thread is provably in the middle of its source (forced schedule, see `run`)
//   fline t=<k> n=<count> <word>...
//                        one line of the thread's file, written <count> times (env: all lines joined by blanks)
//   run n=<threads> reps=<r> seed=<s> [forced=1]
//       with `file` threads, forced=1: harness-level forced schedule (whole API calls ordered, no library sync point
//       needed): the plain threads run their whole job while every file thread is inside its `--hold` callable, i.e.
//       between entering and leaving readArgumentFile() / checkReadEnvVarArgs(); the file threads go on when all plain
//       threads are done (time-outs instead of dead locks).  Deterministic, so only the result oracle speaks; the
//       free-running cases (long files, more repetitions) are for TSan.
//       with a group thread, forced=1: the stand-alone threads start their job when the group thread has registered its
//       handlers and defined their arguments (first loop), and the group thread evaluates / removes them only when all
//       stand-alone threads are done (harness-level ordering of whole API calls; time-outs instead of dead locks)
//       with `help` threads the group singleton is reset before every round (first use races again);
//       forced=1: a schedule forced through the CELMA_VERIF sync points of Singleton<T>::instance(): every
//       thread that passed the unlocked first check waits at `singleton.lock` until all help threads are
//       there, and a thread that went through the locked part waits at `singleton.read3` until all of them
//       have left it (time-outs instead of dead locks when a thread never gets there)
// Result of a thread: `ok:<name>=<v>|<v>../<name>=..` (definition order, `-` = empty) or
// `throw:<exception class>` / `setup-throw:<exception class>`.
#include "common.hpp"

#include <atomic>
#include <cxxabi.h>
#include <deque>
#include <list>
#include <map>
#include <memory>
#include <set>
#include <sstream>
#include <thread>

#include <chrono>
#include <cstring>
#include <fstream>
#include <sys/stat.h>
#include <unistd.h>

#include "celma/prog_args.hpp"
#include "celma/prog_args/groups.hpp"
#include "celma/common/detail/verif_hooks.hpp"
#include "celma/prog_args/detail/cardinality_exact.hpp"
#include "celma/prog_args/detail/cardinality_max.hpp"
#include "celma/prog_args/detail/cardinality_range.hpp"
#include "celma/prog_args/detail/check_lower.hpp"
#include "celma/prog_args/detail/check_max_length.hpp"
#include "celma/prog_args/detail/check_min_length.hpp"
#include "celma/prog_args/detail/check_range.hpp"
#include "celma/prog_args/detail/check_upper.hpp"
#include "celma/prog_args/detail/check_values.hpp"
#include "celma/prog_args/detail/format_lowercase.hpp"
#include "celma/prog_args/detail/format_uppercase.hpp"

namespace pa = celma::prog_args;

// ---- ThreadSanitizer report hook (only meaningful in the TSan build) ---------------------------
static std::atomic<unsigned> g_tsan_reports{0};
#if defined(__SANITIZE_THREAD__)
// libtsan calls this weak hook for every report it prints
extern "C" void __tsan_on_report(void*) { g_tsan_reports.fetch_add(1, std::memory_order_relaxed); }
#endif

// ---- forced schedule through the sync points of Singleton<T>::instance() ---------------------------
struct HookAbort {};   // thrown out of instance() instead of using an object another thread has destroyed
struct Force {
   std::atomic<bool> on{false};
   std::atomic<int> expected{0}, atLock{0}, leftLocked{0}, constructs{0}, victims{0};
};
static Force g_force;
// forced schedule "stand-alone jobs between the group thread's registration and removal"
struct GroupForce {
   std::atomic<bool> on{false};
   std::atomic<int> registered{0}, standaloneDone{0}, nStandalone{0};
};
static GroupForce g_gforce;
// forced schedule "plain jobs while the file threads are in the middle of their argument file / environment variable"
struct FileForce {
   std::atomic<bool> on{false};
   std::atomic<int> nFile{0}, nPlain{0}, inside{0}, plainDone{0};
};
static FileForce g_fforce;
static std::string g_home;   // scratch HOME of this process (both sanitizer builds run in the same work directory)
// the streams of the process-wide Groups object (only the group thread can make it write)
static std::ostringstream* g_groupOut = new std::ostringstream;
static std::ostringstream* g_groupErr = new std::ostringstream;
static thread_local bool t_slow = false;      // this call of instance() went into the locked part
static thread_local int t_myConstruct = 0;    // serial number of the construction this thread performed (0: none)

template <typename P> static void waitFor(P pred, int ms) {
   const auto until = std::chrono::steady_clock::now() + std::chrono::milliseconds(ms);
   while (!pred() && std::chrono::steady_clock::now() < until) std::this_thread::yield();
}

#ifdef CELMA_VERIF
static void syncHook(const char* name) {
   if (std::strncmp(name, "singleton.", 10) != 0) return;
   const char* p = name + 10;
   if (std::strcmp(p, "construct") == 0) { t_myConstruct = g_force.constructs.fetch_add(1) + 1; return; }
   if (!g_force.on.load(std::memory_order_acquire)) return;
   if (std::strcmp(p, "lock") == 0) {
      t_slow = true;
      g_force.atLock.fetch_add(1);
      waitFor([] { return g_force.atLock.load() >= g_force.expected.load(); }, 400);
   } else if (std::strcmp(p, "unlock") == 0) {
      g_force.leftLocked.fetch_add(1);
   } else if (std::strcmp(p, "read3") == 0 && t_slow) {
      t_slow = false;
      waitFor([] { return g_force.leftLocked.load() >= g_force.atLock.load(); }, 400);
      const int mine = t_myConstruct;
      t_myConstruct = 0;
      // the object this thread is about to be handed was constructed by it and has been replaced since
      if (mine != 0 && g_force.constructs.load() > mine) { g_force.victims.fetch_add(1); throw HookAbort{}; }
   }
}
#endif

static void installHook(bool on) {
#ifdef CELMA_VERIF
   celma::common::detail::verifSyncSlot().store(on ? &syncHook : nullptr, std::memory_order_release);
#else
   (void) on;
#endif
}

// ---- workload description ------------------------------------------------------------------------
struct ArgSpec {
   std::string key, kind, name;
   bool hasSep = false;
   char sep = ',';
   std::vector<std::string> checks;
   bool mand = false, multi = false, sort = false, clear = false;
   int unique = 0;
   std::string card, constr, fmt;
};
struct ThreadSpec {
   std::vector<ArgSpec> args;
   std::vector<std::pair<std::string, std::string>> hcs;
   std::vector<std::string> argv;
   bool help = false;
   int bracketAt = -1;             // -1: default (odd threads first, even threads never)
   bool group = false;             // group thread
   int gHandlers = 1, gLoops = 1, gBrackets = -1;
   bool gRemoveAll = false;
   std::string src;                // "" | argfile | progarg | env: a source of arguments beside the command line
   bool hold = false;              // callable argument --hold
   std::vector<std::pair<int, std::string>> flines;   // (count, text) lines of the file / words of the variable
};

static std::string filePathOf(const ThreadSpec& ts, int t) {
   if (ts.src == "progarg") return g_home + "/.progargs/prog_t" + std::to_string(t) + ".pa";
   return g_home + "/args_t" + std::to_string(t) + ".txt";
}
static std::string envNameOf(int t) { return "PROG_T" + std::to_string(t); }

/// writes the file / sets the variable of a `file` thread (main thread, no other thread running)
static bool provideSource(const ThreadSpec& ts, int t) {
   if (ts.src.empty()) return true;
   if (ts.src == "env") {
      std::string v;
      for (auto const& fl : ts.flines) for (int i = 0; i < fl.first; ++i) { if (!v.empty()) v += ' '; v += fl.second; }
      return ::setenv(envNameOf(t).c_str(), v.c_str(), 1) == 0;
   }
   ::mkdir(g_home.c_str(), 0700);
   ::mkdir((g_home + "/.progargs").c_str(), 0700);
   std::ofstream f(filePathOf(ts, t), std::ios::trunc);
   for (auto const& fl : ts.flines) for (int i = 0; i < fl.first; ++i) f << fl.second << "\n";
   f.close();
   return static_cast<bool>(f);
}
static void removeSource(const ThreadSpec& ts, int t) {
   if (ts.src.empty()) return;
   if (ts.src == "env") ::unsetenv(envNameOf(t).c_str());
   else ::unlink(filePathOf(ts, t).c_str());
}

// destination variables of one argument, owned by the thread that runs the job
struct Dest {
   int i = 0;
   std::string s;
   bool b = false;
   std::vector<int> vi;
   std::vector<std::string> vs;
   std::set<int> si;
   std::list<std::string> ls;
};

static std::string exName(const std::exception& e) {
   int st = 0;
   std::unique_ptr<char, void (*)(void*)> p(abi::__cxa_demangle(typeid(e).name(), nullptr, nullptr, &st), std::free);
   std::string n = (st == 0 && p) ? p.get() : typeid(e).name();
   for (auto& c : n) if (c == ' ') c = '_';
   return n;
}

static std::vector<std::string> splitc(const std::string& s, char c) {
   std::vector<std::string> out;
   std::string cur;
   for (char ch : s) { if (ch == c) { out.push_back(cur); cur.clear(); } else cur += ch; }
   out.push_back(cur);
   return out;
}

template <typename C> static std::string joinVals(const C& c) {
   if (c.empty()) return "-";
   std::ostringstream os;
   bool first = true;
   for (auto const& v : c) { if (!first) os << '|'; first = false; os << v; }
   return os.str();
}

static pa::detail::ICheck* mkCheck(const std::string& spec, bool isInt) {
   auto p = splitc(spec, ':');
   if (p[0] == "lower" && p.size() == 2) return isInt ? pa::lower(std::stoi(p[1])) : pa::lower(p[1]);
   if (p[0] == "upper" && p.size() == 2) return isInt ? pa::upper(std::stoi(p[1])) : pa::upper(p[1]);
   if (p[0] == "range" && p.size() == 3) return pa::range(std::stoi(p[1]), std::stoi(p[2]));
   if (p[0] == "values" && p.size() == 2) return pa::values(p[1]);
   if (p[0] == "minlen" && p.size() == 2) return pa::minLength(std::stoul(p[1]));
   if (p[0] == "maxlen" && p.size() == 2) return pa::maxLength(std::stoul(p[1]));
   throw std::string("bad check " + spec);
}

/// defines one argument on a handler; "" or a `bad-..` word
static std::string addOneArg(pa::Handler& ah, const ArgSpec& a, Dest& d) {
   pa::detail::TypedArgBase* h = nullptr;
   bool isInt = false;
   if (a.kind == "int") { h = ah.addArgument(a.key, DEST_VAR(d.i), "int value"); isInt = true; }
   else if (a.kind == "str") h = ah.addArgument(a.key, DEST_VAR(d.s), "string value");
   else if (a.kind == "flag") h = ah.addArgument(a.key, DEST_VAR(d.b), "flag");
   else if (a.kind == "vec_int") { h = ah.addArgument(a.key, DEST_VAR(d.vi), "int values"); isInt = true; }
   else if (a.kind == "vec_str") h = ah.addArgument(a.key, DEST_VAR(d.vs), "string values");
   else if (a.kind == "set_int") { h = ah.addArgument(a.key, DEST_VAR(d.si), "int set"); isInt = true; }
   else if (a.kind == "list_str") h = ah.addArgument(a.key, DEST_VAR(d.ls), "string list");
   else return "bad-kind";
   if (a.hasSep) h->setListSep(a.sep);
   for (auto const& c : a.checks) h->addCheck(mkCheck(c, isInt));
   if (a.mand) h->setIsMandatory();
   if (a.multi) h->setTakesMultiValue();
   if (a.unique) h->setUniqueData(a.unique == 2);
   if (a.sort) h->setSortData();
   if (a.clear) h->setClearBeforeAssign();
   if (!a.card.empty()) {
      auto p = splitc(a.card, ':');
      if (p[0] == "max" && p.size() == 2) h->setCardinality(pa::cardinality_max(std::stoi(p[1])));
      else if (p[0] == "exact" && p.size() == 2) h->setCardinality(pa::cardinality_exact(std::stoi(p[1])));
      else if (p[0] == "range" && p.size() == 3) h->setCardinality(pa::cardinality_range(std::stoi(p[1]), std::stoi(p[2])));
      else return "bad-card";
   }
   if (a.fmt == "upper") h->addFormat(pa::uppercase());
   else if (a.fmt == "lower") h->addFormat(pa::lowercase());
   else if (!a.fmt.empty()) return "bad-fmt";
   return "";
}

/// constraint of one argument on the handler that holds it (all arguments must be defined)
static std::string addArgConstraint(pa::Handler& ah, const ArgSpec& a) {
   if (a.constr.empty()) return "";
   auto p = splitc(a.constr, ':');
   auto* h = ah.getArgHandler(a.key);
   if (p.size() == 2 && p[0] == "requires") h->addConstraint(pa::requiresArg(p[1]));
   else if (p.size() == 2 && p[0] == "excludes") h->addConstraint(pa::excludes(p[1]));
   else return "bad-constr";
   return "";
}

static std::string addHandlerConstraint(pa::Handler& ah, const std::pair<std::string, std::string>& hc) {
   if (hc.first == "all_of") ah.addConstraint(pa::all_of(hc.second));
   else if (hc.first == "any_of") ah.addConstraint(pa::any_of(hc.second));
   else if (hc.first == "one_of") ah.addConstraint(pa::one_of(hc.second));
   else return "bad-hc";
   return "";
}

static std::string destText(const ThreadSpec& ts, const std::vector<Dest>& dests) {
   std::string res = "ok:";
   for (size_t k = 0; k < ts.args.size(); ++k) {
      const ArgSpec& a = ts.args[k];
      const Dest& d = dests[k];
      if (k) res += '/';
      res += a.name + "=";
      if (a.kind == "int") res += std::to_string(d.i);
      else if (a.kind == "str") res += d.s.empty() ? "-" : d.s;
      else if (a.kind == "flag") res += d.b ? "1" : "0";
      else if (a.kind == "vec_int") res += joinVals(d.vi);
      else if (a.kind == "vec_str") res += joinVals(d.vs);
      else if (a.kind == "set_int") res += joinVals(d.si);
      else if (a.kind == "list_str") res += joinVals(d.ls);
   }
   return res;
}

/// the whole job of one thread: own handler, own destinations, own command line
static std::string job(const ThreadSpec& ts, bool ownStreams, int t) {
   std::vector<Dest> dests(ts.args.size());
   std::ostringstream out, err;
   int brOpen = 0, brClose = 0;   // live as long as the handler
   int holds = 0;                 // calls of the --hold callable (from the thread's own file / variable)
   bool counted = false;          // this file thread has been counted as "inside its source" (or as finished)
   struct CountAtExit {           // a file thread that never gets to its --hold must not keep the plain threads waiting
      bool& counted; bool isFile;
      ~CountAtExit() { if (isFile && !counted && g_fforce.on.load(std::memory_order_acquire)) { counted = true; g_fforce.inside.fetch_add(1); } }
   } countAtExit{counted, !ts.src.empty()};
   std::unique_ptr<pa::Handler> ah;
   // the call `addBracketHandler` of the thread model (Lemmas/InterleaveApi.lean, `Api`): guarded use of the group
   // singleton in Handler::addBracketHandler; the handlers capture variables of this thread only
   const int brAt = ts.bracketAt >= 0 ? std::min<int>(ts.bracketAt, static_cast<int>(ts.args.size()))
                                      : (ownStreams && !ts.help ? 0 : -1);
   try {
      const int srcFlag = ts.src == "progarg" ? pa::Handler::hfReadProgArg : ts.src == "env" ? pa::Handler::hfEnvVarArgs : 0;
      if (ts.help) ah.reset(new pa::Handler(out, err, pa::Handler::hfHelpShort | pa::Handler::hfUsageCont));
      else if (ownStreams) ah.reset(new pa::Handler(out, err, srcFlag));
      else ah.reset(new pa::Handler(srcFlag));
      if (ts.src == "argfile") ah->addArgumentFile("arg-file");
      if (ts.hold)
         ah->addArgument("hold", pa::destination(pa::detail::ArgHandlerCallable([&holds, &counted](bool) {
            ++holds;
            if (!g_fforce.on.load(std::memory_order_acquire) || counted) return;
            // forced schedule: this thread is inside readArgumentFile() / checkReadEnvVarArgs() now; every plain thread
            // runs its whole job before it goes on
            counted = true;
            g_fforce.inside.fetch_add(1);
            waitFor([] { return g_fforce.plainDone.load() >= g_fforce.nPlain.load(); }, 5000);
         }), "hold"), "holds the thread inside its argument source");
      for (size_t k = 0; k <= ts.args.size(); ++k) {
         if (static_cast<int>(k) == brAt) ah->addBracketHandler([&brOpen]() { ++brOpen; }, [&brClose]() { ++brClose; });
         if (k == ts.args.size()) break;
         const std::string e = addOneArg(*ah, ts.args[k], dests[k]);
         if (!e.empty()) return e;
      }
      // constraints between arguments need all arguments to be defined
      for (size_t k = 0; k < ts.args.size(); ++k) {
         const std::string e = addArgConstraint(*ah, ts.args[k]);
         if (!e.empty()) return e;
      }
      for (auto const& hc : ts.hcs) {
         const std::string e = addHandlerConstraint(*ah, hc);
         if (!e.empty()) return e;
      }
   } catch (const std::exception& e) {
      if (std::getenv("HANDLER_MT_DEBUG")) std::fprintf(stderr, "debug: setup %s: %s\n", exName(e).c_str(), e.what());
      return "setup-throw:" + exName(e);
   } catch (const std::string& s) {
      return "bad-spec";
   } catch (...) {
      return "setup-throw:non_std";
   }
   // own copy of the command line (the handler may keep pointers into it)
   std::vector<std::string> words;
   words.push_back(ts.src.empty() ? std::string("prog") : "prog_t" + std::to_string(t));
   for (auto const& w : ts.argv) words.push_back(!ts.src.empty() && w == "@file" ? filePathOf(ts, t) : w);
   std::vector<char*> av;
   for (auto& w : words) av.push_back(&w[0]);
   av.push_back(nullptr);
   try {
      ah->evalArguments(static_cast<int>(words.size()), av.data());
   } catch (const std::exception& e) {
      if (std::getenv("HANDLER_MT_DEBUG")) std::fprintf(stderr, "debug: %s: %s\n", exName(e).c_str(), e.what());
      return "throw:" + exName(e);
   } catch (const HookAbort&) {
      return "throw:destroyed-singleton";
   } catch (...) {
      return "throw:non_std";
   }
   std::string res = destText(ts, dests);
   if (brOpen || brClose) res += "/br=" + std::to_string(brOpen) + ":" + std::to_string(brClose);
   if (holds) res += "/hold=" + std::to_string(holds);
   if (ts.help) {
      const std::string u = out.str() + "\x01" + err.str();
      res += "/usage=" + std::to_string(u.size()) + ":" + std::to_string(std::hash<std::string>{}(u) % 1000000007ull);
   } else if (!out.str().empty() || !err.str().empty()) res += "/output=yes";
   return res;
}

/// the job of the group thread: `gLoops` life cycles of `gHandlers` handlers owned by the process-wide Groups object
static std::string groupJob(const ThreadSpec& ts, int t) {
   std::string all;
   const int m = ts.gHandlers;
   for (int loop = 0; loop < ts.gLoops; ++loop) {
      std::vector<Dest> dests(ts.args.size());
      int brOpen = 0, brClose = 0;
      std::string res;
      std::vector<std::string> names;
      for (int j = 0; j < m; ++j) names.push_back("g" + std::to_string(t) + "_" + std::to_string(j));
      bool registered = false;
      try {
         pa::Groups& g = pa::Groups::instance(*g_groupOut, *g_groupErr, 0);
         std::vector<pa::Groups::SharedArgHndl> hs;
         for (int j = 0; j < m; ++j) hs.push_back(g.getArgHandler(names[j], 0));
         registered = true;
         for (size_t k = 0; k < ts.args.size() && res.empty(); ++k) res = addOneArg(*hs[k % m], ts.args[k], dests[k]);
         if (res.empty() && ts.gBrackets >= 0 && ts.gBrackets < m)
            hs[ts.gBrackets]->addBracketHandler([&brOpen]() { ++brOpen; }, [&brClose]() { ++brClose; });
         for (size_t k = 0; k < ts.args.size() && res.empty(); ++k) res = addArgConstraint(*hs[k % m], ts.args[k]);
         for (size_t k = 0; k < ts.hcs.size() && res.empty(); ++k) res = addHandlerConstraint(*hs[0], ts.hcs[k]);
      } catch (const std::exception& e) {
         if (std::getenv("HANDLER_MT_DEBUG")) std::fprintf(stderr, "debug: group setup %s: %s\n", exName(e).c_str(), e.what());
         res = "setup-throw:" + exName(e);
      } catch (const std::string&) {
         res = "bad-spec";
      } catch (...) {
         res = "setup-throw:non_std";
      }
      if (loop == 0 && g_gforce.on.load(std::memory_order_acquire)) {
         // forced schedule: the handlers are registered and hold their arguments; every stand-alone thread now runs its
         // whole job; evaluation and removal follow when all of them are done
         g_gforce.registered.store(1, std::memory_order_release);
         waitFor([] { return g_gforce.standaloneDone.load() >= g_gforce.nStandalone.load(); }, 5000);
      }
      if (res.empty()) {
         std::vector<std::string> words;
         words.push_back("prog");
         for (auto const& w : ts.argv) words.push_back(w);
         std::vector<char*> av;
         for (auto& w : words) av.push_back(&w[0]);
         av.push_back(nullptr);
         try {
            pa::Groups::instance().evalArguments(static_cast<int>(words.size()), av.data());
            res = destText(ts, dests);
            if (brOpen || brClose) res += "/br=" + std::to_string(brOpen) + ":" + std::to_string(brClose);
         } catch (const std::exception& e) {
            if (std::getenv("HANDLER_MT_DEBUG")) std::fprintf(stderr, "debug: group %s: %s\n", exName(e).c_str(), e.what());
            res = "throw:" + exName(e);
         } catch (...) {
            res = "throw:non_std";
         }
      }
      if (registered) {
         try {
            if (ts.gRemoveAll) pa::Groups::instance().removeAllArgHandler();
            else for (auto const& nm : names) pa::Groups::instance().removeArgHandler(nm);
         } catch (...) {
            res += "/remove-throw";
         }
      }
      if (!g_groupOut->str().empty() || !g_groupErr->str().empty()) { res += "/output=yes"; g_groupOut->str(""); g_groupErr->str(""); }
      if (res.compare(0, 4, "bad-") == 0) return res;
      if (loop == 0) all = res;
      else if (res != all.substr(0, all.find("//"))) all += "//loop" + std::to_string(loop) + ":" + res;
   }
   return all;
}

// ---- the concurrent run --------------------------------------------------------------------------
static std::map<int, ThreadSpec> g_specs;

static uint64_t mix(uint64_t x) {
   x += 0x9e3779b97f4a7c15ull; x = (x ^ (x >> 30)) * 0xbf58476d1ce4e5b9ull;
   x = (x ^ (x >> 27)) * 0x94d049bb133111ebull; return x ^ (x >> 31);
}

static std::string runAll(int n, int reps, uint64_t seed, bool forced) {
   if (n < 1 || n > 64) return "bad-op";
   std::vector<ThreadSpec> specs(n);
   for (int t = 0; t < n; ++t) {
      auto it = g_specs.find(t);
      if (it != g_specs.end()) specs[t] = it->second;
   }
   for (auto const& kv : g_specs) if (kv.first >= n) return "bad-op";
   int nHelp = 0, nAsk = 0;       // usage-capable handlers / command lines that ask for the usage
   int nGroup = 0;                // group threads (users of the process-wide Groups object)
   for (int t = 0; t < n; ++t) {
      nGroup += specs[t].group ? 1 : 0;
      if (specs[t].group && specs[t].help) return "bad-op";
      nHelp += specs[t].help ? 1 : 0;
      for (auto const& w : specs[t].argv) if (specs[t].help && w == "-h") { ++nAsk; break; }
   }
   if (nGroup > 1) return "bad-op";   // two users of one Groups object are not independent handlers
   int nFile = 0;                 // threads with an argument file / environment variable of their own
   for (int t = 0; t < n; ++t) {
      if (specs[t].src.empty()) continue;
      ++nFile;
      if (specs[t].group || specs[t].help) return "bad-op";
   }
   if (nFile > 0 && (nGroup > 0 || nHelp > 0)) return "bad-op";   // one kind of forced schedule per case
   struct Sources {               // files written / variables set before any thread runs, removed afterwards
      const std::vector<ThreadSpec>& sp; bool ok = true;
      explicit Sources(const std::vector<ThreadSpec>& s) : sp(s) { for (size_t t = 0; t < sp.size(); ++t) ok = provideSource(sp[t], static_cast<int>(t)) && ok; }
      ~Sources() { for (size_t t = 0; t < sp.size(); ++t) removeSource(sp[t], static_cast<int>(t)); }
   } sources(specs);
   if (!sources.ok) return "bad-op cannot write the argument file";
   g_fforce.on.store(false, std::memory_order_release);
   installHook(nHelp > 0);      // counts constructions; forces the schedule only while g_force.on
   const bool usesGroups = nHelp > 0 || nGroup > 0;
   g_gforce.on.store(false, std::memory_order_release);
   // 1. alone, sequentially
   std::vector<std::string> alone(n);
   for (int t = 0; t < n; ++t) {
      if (usesGroups) pa::Groups::reset();
      alone[t] = specs[t].group ? groupJob(specs[t], t) : job(specs[t], t % 2 == 1, t);
      if (alone[t].compare(0, 4, "bad-") == 0) return "bad-op";
   }
   const unsigned tsanBefore = g_tsan_reports.load();
   // 2. together
   std::string mismatch;
   for (int r = 0; r < reps && mismatch.empty(); ++r) {
      if (usesGroups) pa::Groups::reset();   // no group singleton yet: the first uses race for its construction
      if (nGroup > 0) {
         g_gforce.registered = 0; g_gforce.standaloneDone = 0; g_gforce.nStandalone = n - nGroup;
         g_gforce.on.store(forced, std::memory_order_release);
      }
      if (nHelp > 0) {
         g_force.expected = nAsk; g_force.atLock = 0; g_force.leftLocked = 0; g_force.constructs = 0; g_force.victims = 0;
         g_force.on.store(forced, std::memory_order_release);
      }
      if (nFile > 0) {
         g_fforce.nFile = nFile; g_fforce.nPlain = n - nFile; g_fforce.inside = 0; g_fforce.plainDone = 0;
         g_fforce.on.store(forced, std::memory_order_release);
      }
      std::vector<std::string> got(n);
      std::atomic<int> arrived{0};
      std::atomic<bool> go{false};
      std::vector<std::thread> th;
      for (int t = 0; t < n; ++t) {
         th.emplace_back([&, t, r]() {
            const unsigned spin = static_cast<unsigned>(mix(seed * 1000003u + r * 131u + t) % (r % 3 == 0 ? 1u : 3000u));
            arrived.fetch_add(1);
            while (!go.load(std::memory_order_acquire)) { }
            volatile unsigned sink = 0;
            for (unsigned i = 0; i < spin; ++i) sink = sink + i;
            if (specs[t].group) { got[t] = groupJob(specs[t], t); return; }
            const bool held = g_gforce.on.load(std::memory_order_acquire);
            if (held) waitFor([] { return g_gforce.registered.load(std::memory_order_acquire) != 0; }, 5000);
            // forced schedule with file threads: a plain thread runs when every file thread is inside its source
            const bool fheld = g_fforce.on.load(std::memory_order_acquire) && specs[t].src.empty();
            if (fheld) waitFor([] { return g_fforce.inside.load() >= g_fforce.nFile.load(); }, 5000);
            got[t] = job(specs[t], t % 2 == 1, t);
            if (fheld) g_fforce.plainDone.fetch_add(1);
            if (held) g_gforce.standaloneDone.fetch_add(1);
         });
      }
      while (arrived.load() < n) std::this_thread::yield();
      go.store(true, std::memory_order_release);
      for (auto& x : th) x.join();
      g_force.on.store(false, std::memory_order_release);
      g_gforce.on.store(false, std::memory_order_release);
      g_fforce.on.store(false, std::memory_order_release);
      if (nHelp > 0 && g_force.constructs.load() > 1) {
         std::ostringstream os;
         os << "!! interference through Singleton<Groups>: constructed " << g_force.constructs.load()
            << " times in one round (rep=" << r << ", " << nHelp << " threads print their usage); "
            << g_force.victims.load() << " thread(s) were handed an object another thread destroyed (Handler::usage)";
         for (int t = 0; t < n; ++t) if (got[t] != alone[t]) { os << "; thread=" << t << " alone=" << alone[t] << " concurrent=" << got[t]; break; }
         mismatch = os.str();
         break;
      }
      for (int t = 0; t < n; ++t) {
         if (got[t] != alone[t]) {
            std::ostringstream os;
            os << "!! mismatch rep=" << r << " thread=" << t << " alone=" << alone[t] << " concurrent=" << got[t];
            mismatch = os.str();
            break;
         }
      }
   }
   installHook(false);
   if (!mismatch.empty()) return mismatch;
   const unsigned tsanNow = g_tsan_reports.load();
   if (tsanNow != tsanBefore) {
      std::ostringstream os;
      os << "!! tsan reports=" << (tsanNow - tsanBefore) << " threads=" << n;
      return os.str();
   }
   std::ostringstream os;
   os << "ok threads=" << n;
   for (int t = 0; t < n; ++t) os << " t" << t << "=" << alone[t];
   return os.str();
}

int main() {
   {  // scratch HOME of this process ($HOME/.progargs/<prog>.pa is what hfReadProgArg reads); set before any thread exists
      char cwd[4096];
      g_home = std::string(::getcwd(cwd, sizeof cwd) ? cwd : ".") + "/home_mt_" + std::to_string(static_cast<long>(::getpid()));
      ::setenv("HOME", g_home.c_str(), 1);
   }
   return vh::run([&](const std::vector<std::string>& tk, const std::string&) -> std::string {
      if (tk.empty()) return "bad-op";
      if (tk[0] == "case") { g_specs.clear(); return "ok"; }
      try {
         if (tk[0] == "arg" || tk[0] == "hc" || tk[0] == "argv" || tk[0] == "help" || tk[0] == "bracket" || tk[0] == "group" ||
             tk[0] == "file" || tk[0] == "fline") {
            const std::string ts = vh::kv(tk, "t");
            if (ts.empty()) return "bad-op";
            int t = std::stoi(ts);
            if (t < 0 || t > 63) return "bad-op";
            ThreadSpec& sp = g_specs[t];
            if (tk[0] == "help") {
               if (tk.size() != 2) return "bad-op";
               sp.help = true;
               return "ok";
            }
            if (tk[0] == "file") {
               // file t=<k> mode=<argfile|progarg|env> [hold=0|1]
               if (tk.size() < 3 || tk.size() > 4 || tk[1] != "t=" + ts) return "bad-op";
               for (size_t i = 1; i < tk.size(); ++i) {
                  const std::string k = tk[i].substr(0, tk[i].find('='));
                  if (k != "t" && k != "mode" && k != "hold") return "bad-op";
               }
               const std::string m = vh::kv(tk, "mode"), h = vh::kv(tk, "hold", "0");
               if ((m != "argfile" && m != "progarg" && m != "env") || (h != "0" && h != "1")) return "bad-op";
               sp.src = m; sp.hold = h == "1";
               return "ok";
            }
            if (tk[0] == "fline") {
               // fline t=<k> n=<1..2000> <word>...
               if (tk.size() < 4 || tk[1] != "t=" + ts || tk[2].compare(0, 2, "n=") != 0) return "bad-op";
               const std::string c = tk[2].substr(2);
               if (c.empty() || c.size() > 4 || c.find_first_not_of("0123456789") != std::string::npos) return "bad-op";
               const int cnt = std::stoi(c);
               if (cnt < 1 || cnt > 2000) return "bad-op";
               std::string text;
               for (size_t i = 3; i < tk.size(); ++i) { if (i > 3) text += ' '; text += tk[i]; }
               sp.flines.emplace_back(cnt, text);
               return "ok";
            }
            if (tk[0] == "bracket") {
               if (tk.size() != 3) return "bad-op";
               const std::string at = vh::kv(tk, "at");
               if (at.empty() || at.size() > 3 || at.find_first_not_of("0123456789") != std::string::npos) return "bad-op";
               sp.bracketAt = std::stoi(at);
               return "ok";
            }
            if (tk[0] == "group") {
               // group t=<k> handlers=<1..8> loops=<1..99> [brackets=<0..handlers-1>] [remove=each|all]
               auto num = [&](const char* key, int lo, int hi, int dflt, bool& ok) {
                  const std::string v = vh::kv(tk, key);
                  if (v.empty()) return dflt;
                  if (v.size() > 2 || v.find_first_not_of("0123456789") != std::string::npos) { ok = false; return dflt; }
                  const int x = std::stoi(v);
                  if (x < lo || x > hi) ok = false;
                  return x;
               };
               bool ok = true;
               for (size_t i = 1; i < tk.size(); ++i) {
                  const std::string k = tk[i].substr(0, tk[i].find('='));
                  if (k != "t" && k != "handlers" && k != "loops" && k != "brackets" && k != "remove") ok = false;
               }
               const int hn = num("handlers", 1, 8, 0, ok), lp = num("loops", 1, 99, 0, ok);
               if (!ok || hn == 0 || lp == 0) return "bad-op";
               const int br = num("brackets", 0, hn - 1, -1, ok);
               const std::string rm = vh::kv(tk, "remove", "each");
               if (!ok || (rm != "each" && rm != "all")) return "bad-op";
               sp.group = true; sp.gHandlers = hn; sp.gLoops = lp; sp.gBrackets = br; sp.gRemoveAll = rm == "all";
               return "ok";
            }
            if (tk[0] == "argv") {
               if (tk.size() < 2 || tk[1] != "t=" + ts) return "bad-op";
               sp.argv.assign(tk.begin() + 2, tk.end());
               return "ok";
            }
            if (tk[0] == "hc") {
               std::string k = vh::kv(tk, "kind"), s = vh::kv(tk, "spec");
               if (k.empty() || s.empty()) return "bad-op";
               if (k != "all_of" && k != "any_of" && k != "one_of") return "bad-op";
               sp.hcs.emplace_back(k, s);
               return "ok";
            }
            ArgSpec a;
            a.key = vh::kv(tk, "key");
            a.kind = vh::kv(tk, "kind");
            if (a.key.empty() || a.kind.empty()) return "bad-op";
            static const char* kinds[] = {"int", "str", "flag", "vec_int", "vec_str", "set_int", "list_str"};
            bool known = false;
            for (auto k : kinds) known = known || a.kind == k;
            if (!known) return "bad-op";
            a.name = a.key.substr(0, a.key.find(','));
            for (size_t i = 1; i < tk.size(); ++i) {
               const std::string& x = tk[i];
               const size_t eq = x.find('=');
               if (eq == std::string::npos) return "bad-op";
               const std::string k = x.substr(0, eq), v = x.substr(eq + 1);
               if (k == "t" || k == "key" || k == "kind") continue;
               if (k == "sep") { if (v.size() != 1) return "bad-op"; a.hasSep = true; a.sep = v[0]; }
               else if (k == "check") a.checks.push_back(v);
               else if (k == "mand") a.mand = v == "1";
               else if (k == "multi") a.multi = v == "1";
               else if (k == "unique") a.unique = std::stoi(v);
               else if (k == "sort") a.sort = v == "1";
               else if (k == "clear") a.clear = v == "1";
               else if (k == "card") a.card = v;
               else if (k == "constr") a.constr = v;
               else if (k == "fmt") a.fmt = v;
               else return "bad-op";
            }
            sp.args.push_back(a);
            return "ok";
         }
         if (tk[0] == "run") {
            int n = std::stoi(vh::kv(tk, "n", "0"));
            int reps = std::stoi(vh::kv(tk, "reps", "1"));
            uint64_t seed = std::stoull(vh::kv(tk, "seed", "1"));
            return runAll(n, reps, seed, vh::kv(tk, "forced", "0") == "1");
         }
      } catch (const std::exception&) {
         return "bad-op";
      }
      return "bad-op";
   });
}
